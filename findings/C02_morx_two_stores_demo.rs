//! Demonstration (C): a `morx` ligature action list with TWO storing actions (STORE and/or LAST)
//! for one PERFORM_ACTION makes `LigatureSubstitution::process_glyphs` execute
//!     self.glyphs.drain((start_pos + 1)..(end_pos + 1));
//!     self.glyphs[start_pos] = ligature.clone();
//!     i -= end_pos - start_pos;
//! twice with the same `start_pos` / `end_pos`, although the run is already shorter after the
//! first time.
//!
//! Each test fails if `apply` panicked and passes if it returned `Ok` or `Err`.

use std::panic::{self, AssertUnwindSafe};
use std::sync::{Arc, Mutex};

use allsorts::binary::read::ReadScope;
use allsorts::error::ParseError;
use allsorts::gsub::{FeatureMask, Features, GlyphOrigin, RawGlyph, RawGlyphFlags};
use allsorts::layout::morx;
use allsorts::tables::morx::MorxTable;
use allsorts::tinyvec::tiny_vec;

const SET_COMPONENT: u16 = 0x8000;
const PERFORM_ACTION: u16 = 0x2000;
const ACTION_LAST: u32 = 0x8000_0000;
const ACTION_STORE: u32 = 0x4000_0000;

/// `maxp.numGlyphs` handed to the `morx` parser (only used by format 0 lookups).
const NUM_GLYPHS: u16 = 4;
/// The two glyphs of the run; both are class 4. `LIGATURE` is what they should combine to.
const GLYPH_A: u16 = 1;
const GLYPH_B: u16 = 2;
const LIGATURE: u16 = 3;

fn push16(v: &mut Vec<u8>, x: u16) {
    v.extend_from_slice(&x.to_be_bytes());
}

fn push32(v: &mut Vec<u8>, x: u32) {
    v.extend_from_slice(&x.to_be_bytes());
}

/// Hand-built 144 byte `morx` table: one chain, one ligature (type 2) subtable.
///
/// State machine (class 4 = glyph 1 or glyph 2):
///   state 0/1 --class 4--> entry 1: SET_COMPONENT, go to state 2
///   state 2   --class 4--> entry 2: SET_COMPONENT | PERFORM_ACTION, ligActionIndex =
///                                   0, go to state 0
/// Ligature actions: `action_0`, `action_1` (both with offset 0 in these tests); entry 2 has
/// ligActionIndex 0. So the run [1, 2, ..] pops glyph 2 (component[2], action 0), then glyph 1
/// (component[1], action 1), adds the component values (all 0) and, for an action with STORE or
/// LAST, looks the sum up in the ligature list (ligature[0] = glyph 3, always succeeds).
///
/// Well-formed: action 0 = 0x00000000 (plain), action 1 = 0x80000000 (LAST).
/// Hypothesis (C): action 0 = 0x40000000 (STORE), action 1 = 0x80000000 (LAST).
fn build_morx(action_0: u32, action_1: u32) -> Vec<u8> {
    let (component_1, component_2, entry2_lig_action_index) = (0u16, 0u16, 0u16);
    let mut t = Vec::new();

    // ---- morx header (8 bytes) @0
    push16(&mut t, 2); // version = 2
    push16(&mut t, 0); // unused
    push32(&mut t, 1); // nChains = 1

    // ---- chain header (16 bytes) @8
    push32(&mut t, 1); // defaultFlags = 0x00000001
    push32(&mut t, 136); // chainLength = 16 (chain header) + 120 (subtable), counted from @8
    push32(&mut t, 0); // nFeatureEntries = 0 (so sub-feature flags == defaultFlags)
    push32(&mut t, 1); // nSubtables = 1

    // ---- subtable header (12 bytes) @24
    push32(&mut t, 120); // length = 12 (header) + 108 (body)
    push32(&mut t, 0x0000_0002); // coverage: horizontal, ascending, type 2 = ligature
    push32(&mut t, 1); // subFeatureFlags = 0x00000001; & defaultFlags != 0 => applied

    // ---- subtable body (108 bytes) @36; all offsets below are relative to this point
    let body = t.len();
    // STXHeader (16 bytes) + 3 ligature subtable offsets (12 bytes) @body+0
    push32(&mut t, 5); // nClasses = 5 (0 EOT, 1 OOB, 2 deleted, 3 EOL, 4 = our glyphs)
    push32(&mut t, 28); // classTableOffset
    push32(&mut t, 40); // stateArrayOffset
    push32(&mut t, 72); // entryTableOffset
    push32(&mut t, 100); // ligActionOffset (last, because the parser reads actions to the end)
    push32(&mut t, 92); // componentOffset
    push32(&mut t, 98); // ligatureOffset

    // class lookup table, format 8 (trimmed array) (10 bytes + 2 padding) @body+28
    assert_eq!(t.len() - body, 28);
    push16(&mut t, 8); // format = 8
    push16(&mut t, GLYPH_A); // firstGlyph = 1
    push16(&mut t, 2); // glyphCount = 2
    push16(&mut t, 4); // class of glyph 1 = 4
    push16(&mut t, 4); // class of glyph 2 = 4
    push16(&mut t, 0); // padding

    // state array: 3 states x 5 classes of u16 entry indices (30 bytes + 2 padding) @body+40
    assert_eq!(t.len() - body, 40);
    for class4_entry in [1, 1, 2] {
        // state 0 = start of text, state 1 = start of line, state 2 = saw one component
        push16(&mut t, 0); // class 0 (end of text)   -> entry 0
        push16(&mut t, 0); // class 1 (out of bounds) -> entry 0
        push16(&mut t, 0); // class 2 (deleted glyph) -> entry 0
        push16(&mut t, 0); // class 3 (end of line)   -> entry 0
        push16(&mut t, class4_entry); // class 4 (glyph 1, 2) -> entry 1 (states 0, 1), 2 (state 2)
    }
    push16(&mut t, 0); // padding

    // entry table: 3 entries x 6 bytes (18 bytes + 2 padding) @body+72
    assert_eq!(t.len() - body, 72);
    // entry 0: the do-nothing entry
    push16(&mut t, 0); // nextStateIndex = 0
    push16(&mut t, 0); // entryFlags = 0
    push16(&mut t, 0); // ligActionIndex (unused)
    // entry 1: first component
    push16(&mut t, 2); // nextStateIndex = 2
    push16(&mut t, SET_COMPONENT); // entryFlags = 0x8000
    push16(&mut t, 0); // ligActionIndex (unused)
    // entry 2: second component, perform the ligature actions
    push16(&mut t, 0); // nextStateIndex = 0
    push16(&mut t, SET_COMPONENT | PERFORM_ACTION); // entryFlags = 0xA000
    push16(&mut t, entry2_lig_action_index); // ligActionIndex
    push16(&mut t, 0); // padding

    // component table: 3 x u16, indexed by glyph id + action offset (6 bytes) @body+92
    assert_eq!(t.len() - body, 92);
    push16(&mut t, 0); // component[0] (glyph 0, unused)
    push16(&mut t, component_1); // component[1] (glyph 1)
    push16(&mut t, component_2); // component[2] (glyph 2)

    // ligature list: 1 x u16 (2 bytes) @body+98
    assert_eq!(t.len() - body, 98);
    push16(&mut t, LIGATURE); // ligature[0] = glyph 3

    // ligature action table: 2 x u32 (8 bytes) @body+100
    assert_eq!(t.len() - body, 100);
    push32(&mut t, action_0); // action 0: flags (LAST 0x80000000, STORE 0x40000000) | offset 0
    push32(&mut t, action_1); // action 1: flags | offset 0

    assert_eq!(t.len() - body, 108);
    assert_eq!(t.len(), 144);
    t
}

fn hex_dump(bytes: &[u8]) -> String {
    bytes
        .chunks(16)
        .enumerate()
        .map(|(i, row)| {
            let hex = row
                .iter()
                .map(|b| format!("{:02x}", b))
                .collect::<Vec<_>>()
                .join(" ");
            format!("  {:04x}: {}\n", i * 16, hex)
        })
        .collect()
}

fn raw_glyph(ch: char, glyph_index: u16) -> RawGlyph<()> {
    RawGlyph {
        unicodes: tiny_vec![[char; 1] => ch],
        glyph_index,
        liga_component_pos: 0,
        glyph_origin: GlyphOrigin::Char(ch),
        flags: RawGlyphFlags::empty(),
        variation: None,
        extra_data: (),
    }
}

enum Outcome {
    Returned(Result<(), ParseError>, Vec<u16>),
    /// Panic message and location.
    Panicked(String),
}

/// Parse `table` and run `morx::apply` on the run `gids` under `catch_unwind`.
fn apply_catching(table: &[u8], gids: &[u16]) -> Outcome {
    let morx_table = match ReadScope::new(table).read_dep::<MorxTable<'_>>(NUM_GLYPHS) {
        Ok(morx_table) => morx_table,
        Err(err) => panic!("hand-built morx table was refused by the parser: {:?}", err),
    };
    // Check that the parser saw what we meant it to see.
    assert_eq!(morx_table.chains.len(), 1);
    let chain = &morx_table.chains[0];
    assert_eq!(chain.chain_header.default_flags, 1);
    assert_eq!(chain.subtables.len(), 1);
    assert_eq!(chain.subtables[0].subtable_header.coverage & 0xFF, 2);
    assert_eq!(chain.subtables[0].subtable_header.sub_feature_flags, 1);
    if let allsorts::tables::morx::SubtableType::Ligature { ligature_subtable } =
        &chain.subtables[0].subtable_body
    {
        println!(
            "parsed ligature subtable: {} actions {:x?}, {} entries, {} component values, \
             {} ligature list values",
            ligature_subtable.action_table.actions.len(),
            ligature_subtable.action_table.actions,
            ligature_subtable.entry_table.lig_entries.len(),
            ligature_subtable.component_table.component_array.len(),
            ligature_subtable.ligature_list.0.len(),
        );
        assert_eq!(ligature_subtable.action_table.actions.len(), 2);
    } else {
        panic!("subtable was not parsed as a ligature subtable");
    }

    let mut glyphs: Vec<RawGlyph<()>> = gids
        .iter()
        .zip("abcdefgh".chars())
        .map(|(gid, ch)| raw_glyph(ch, *gid))
        .collect();
    let features = Features::Mask(FeatureMask::default());

    // Record the message and location of a panic; keep the default hook quiet meanwhile.
    let recorded: Arc<Mutex<Option<String>>> = Arc::new(Mutex::new(None));
    let recorded_in_hook = Arc::clone(&recorded);
    let previous_hook = panic::take_hook();
    panic::set_hook(Box::new(move |info| {
        let location = info
            .location()
            .map(|l| format!("{}:{}:{}", l.file(), l.line(), l.column()))
            .unwrap_or_else(|| String::from("<unknown location>"));
        let payload = info.payload();
        let message = if let Some(s) = payload.downcast_ref::<&str>() {
            s.to_string()
        } else if let Some(s) = payload.downcast_ref::<String>() {
            s.clone()
        } else {
            String::from("<non-string panic payload>")
        };
        // `Vec::drain`'s range check reports a location inside libcore; find the innermost
        // frame in src/layout/morx.rs in the backtrace as well.
        let backtrace = std::backtrace::Backtrace::force_capture().to_string();
        let crate_frame = backtrace
            .lines()
            .find(|line| line.contains("src/layout/morx.rs"))
            .map(|line| line.trim().trim_start_matches("at ").to_string())
            .unwrap_or_else(|| String::from("<no frame in src/layout/morx.rs>"));
        *recorded_in_hook.lock().unwrap() = Some(format!(
            "'{}' at {} (innermost allsorts frame: {})",
            message, location, crate_frame
        ));
    }));
    let res = panic::catch_unwind(AssertUnwindSafe(|| {
        morx::apply(&morx_table, &mut glyphs, &features)
    }));
    panic::set_hook(previous_hook);

    match res {
        Ok(res) => Outcome::Returned(res, glyphs.iter().map(|g| g.glyph_index).collect()),
        Err(_payload) => {
            let info = recorded.lock().unwrap().take();
            Outcome::Panicked(info.unwrap_or_else(|| String::from("<panic not recorded>")))
        }
    }
}

/// Control: well-formed table (plain, LAST). Glyphs 1, 2 must become the ligature glyph 3 and the
/// out-of-bounds class glyph 0 that follows must be left alone.
#[test]
fn a_control_forms_ligature() {
    let table = build_morx(0x0000_0000, ACTION_LAST);
    println!("control morx table ({} bytes):\n{}", table.len(), hex_dump(&table));
    for run in [&[GLYPH_A, GLYPH_B][..], &[GLYPH_A, GLYPH_B, 0][..]] {
        match apply_catching(&table, run) {
            Outcome::Returned(res, gids) => {
                println!("control: run {:?}: morx::apply returned {:?}, glyphs = {:?}", run, res, gids);
                assert!(res.is_ok());
                let mut expected = vec![LIGATURE];
                expected.extend_from_slice(&run[2..]);
                assert_eq!(gids, expected);
            }
            Outcome::Panicked(info) => panic!("CONTROL PANIC: morx::apply panicked: {}", info),
        }
    }
}

/// (C) action 0 = STORE, action 1 = LAST: two storing actions for one PERFORM_ACTION.
/// Run [1, 2]: nothing follows the ligature group.
#[test]
fn d_two_storing_actions_must_not_panic() {
    let table = build_morx(ACTION_STORE, ACTION_LAST);
    println!("(C) morx table ({} bytes):\n{}", table.len(), hex_dump(&table));
    let run = [GLYPH_A, GLYPH_B];
    match apply_catching(&table, &run) {
        Outcome::Returned(res, gids) => {
            println!("(C): run {:?}: morx::apply returned {:?}, glyphs = {:?}", run, res, gids);
        }
        Outcome::Panicked(info) => panic!(
            "PANIC (C): allsorts::layout::morx::apply panicked on run {:?} with ligature actions \
             [STORE, LAST] (two storing actions for one PERFORM_ACTION): {}",
            run, info
        ),
    }
}

/// (C) again, but one more glyph (glyph 0, class 1 = out of bounds) follows the ligature group,
/// so that the second drain has something to remove.
#[test]
fn e_two_storing_actions_with_trailing_glyph_must_not_panic() {
    let table = build_morx(ACTION_STORE, ACTION_LAST);
    let run = [GLYPH_A, GLYPH_B, 0];
    match apply_catching(&table, &run) {
        Outcome::Returned(res, gids) => {
            println!("(C'): run {:?}: morx::apply returned {:?}, glyphs = {:?}", run, res, gids);
        }
        Outcome::Panicked(info) => panic!(
            "PANIC (C'): allsorts::layout::morx::apply panicked on run {:?} with ligature actions \
             [STORE, LAST] (two storing actions for one PERFORM_ACTION): {}",
            run, info
        ),
    }
}
