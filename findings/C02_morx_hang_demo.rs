//! Demonstration: a `morx` contextual subtable whose state-table entry has DONT_ADVANCE set and
//! whose next state leads back to the same entry for the same glyph class makes
//! `allsorts::layout::morx::apply` spin forever (no iteration limit in the `'glyph` loop of
//! `ContextualSubstitution::process_glyphs`).

use std::sync::mpsc;
use std::thread;
use std::time::{Duration, Instant};

use allsorts::binary::read::ReadScope;
use allsorts::error::ParseError;
use allsorts::gsub::{FeatureMask, Features, GlyphOrigin, RawGlyph, RawGlyphFlags};
use allsorts::layout::morx;
use allsorts::tables::morx::MorxTable;
use allsorts::tinyvec::tiny_vec;

const DONT_ADVANCE: u16 = 0x4000;
const TIMEOUT: Duration = Duration::from_secs(5);
/// `maxp.numGlyphs` handed to the `morx` parser (only used by format 0 lookups).
const NUM_GLYPHS: u16 = 2;
/// The glyph in the run. The class table maps it to class 4.
const GLYPH: u16 = 1;

fn push16(v: &mut Vec<u8>, x: u16) {
    v.extend_from_slice(&x.to_be_bytes());
}

fn push32(v: &mut Vec<u8>, x: u32) {
    v.extend_from_slice(&x.to_be_bytes());
}

/// Hand-built 104 byte `morx` table: one chain, one contextual (type 1) subtable.
///
/// `entry1_flags` is the flags word of entry 1, the entry used for (state 0, class 4) and
/// (state 1, class 4). Its new state is 0, so with DONT_ADVANCE set the state machine goes
/// state 0 --class 4--> entry 1 --> state 0 without consuming the glyph, forever.
fn build_morx(entry1_flags: u16) -> Vec<u8> {
    let mut t = Vec::new();

    // ---- morx header (8 bytes) @0
    push16(&mut t, 2); // version = 2
    push16(&mut t, 0); // unused
    push32(&mut t, 1); // nChains = 1

    // ---- chain header (16 bytes) @8
    push32(&mut t, 1); // defaultFlags = 0x00000001
    push32(&mut t, 96); // chainLength = 16 (chain header) + 80 (subtable), counted from @8
    push32(&mut t, 0); // nFeatureEntries = 0 (so sub-feature flags == defaultFlags)
    push32(&mut t, 1); // nSubtables = 1

    // ---- subtable header (12 bytes) @24
    push32(&mut t, 80); // length = 12 (header) + 68 (body)
    push32(&mut t, 0x0000_0001); // coverage: horizontal, ascending, type 1 = contextual
    push32(&mut t, 1); // subFeatureFlags = 0x00000001; & defaultFlags != 0 => applied

    // ---- subtable body (68 bytes) @36; all offsets below are relative to this point
    let body = t.len();
    // STXHeader (16 bytes) + substitutionTable offset (4 bytes) @body+0
    push32(&mut t, 5); // nClasses = 5 (0 EOT, 1 OOB, 2 deleted, 3 EOL, 4 = our glyph)
    push32(&mut t, 20); // classTableOffset
    push32(&mut t, 28); // stateArrayOffset
    push32(&mut t, 48); // entryTableOffset
    push32(&mut t, 64); // substitutionTableOffset

    // class lookup table, format 8 (trimmed array) (8 bytes) @body+20
    assert_eq!(t.len() - body, 20);
    push16(&mut t, 8); // format = 8
    push16(&mut t, GLYPH); // firstGlyph = 1
    push16(&mut t, 1); // glyphCount = 1
    push16(&mut t, 4); // class of glyph 1 = 4

    // state array: 2 states x 5 classes of u16 entry indices (20 bytes) @body+28
    assert_eq!(t.len() - body, 28);
    for _state in 0..2 {
        // state 0 = start of text, state 1 = start of line
        push16(&mut t, 0); // class 0 (end of text)   -> entry 0
        push16(&mut t, 0); // class 1 (out of bounds) -> entry 0
        push16(&mut t, 0); // class 2 (deleted glyph) -> entry 0
        push16(&mut t, 0); // class 3 (end of line)   -> entry 0
        push16(&mut t, 1); // class 4 (glyph 1)       -> entry 1
    }

    // entry table: 2 entries x 8 bytes (16 bytes) @body+48
    assert_eq!(t.len() - body, 48);
    // entry 0: the do-nothing entry
    push16(&mut t, 0); // newState = 0
    push16(&mut t, 0); // flags = 0
    push16(&mut t, 0xFFFF); // markIndex = none
    push16(&mut t, 0xFFFF); // currentIndex = none
    // entry 1: the entry for (state 0|1, class 4)
    push16(&mut t, 0); // newState = 0   <- back to the state we came from
    push16(&mut t, entry1_flags); // flags: 0x4000 = DONT_ADVANCE in the hostile table
    push16(&mut t, 0xFFFF); // markIndex = none
    push16(&mut t, 0xFFFF); // currentIndex = none

    // substitution table (4 bytes) @body+64
    assert_eq!(t.len() - body, 64);
    push32(&mut t, 0); // first offset = 0 => the parser assumes 0 / 4 = 0 lookup tables

    assert_eq!(t.len() - body, 68);
    assert_eq!(t.len(), 104);
    t
}

fn hex_dump(bytes: &[u8]) -> String {
    bytes
        .chunks(16)
        .enumerate()
        .map(|(i, row)| {
            let hex = row
                .iter()
                .map(|b| format!("{:02x}", b))
                .collect::<Vec<_>>()
                .join(" ");
            format!("  {:04x}: {}\n", i * 16, hex)
        })
        .collect()
}

fn glyph_run() -> Vec<RawGlyph<()>> {
    vec![RawGlyph {
        unicodes: tiny_vec![[char; 1] => 'a'],
        glyph_index: GLYPH,
        liga_component_pos: 0,
        glyph_origin: GlyphOrigin::Char('a'),
        flags: RawGlyphFlags::empty(),
        variation: None,
        extra_data: (),
    }]
}

/// What the worker thread reports back if `morx::apply` returns.
type Report = (Result<(), ParseError>, Vec<u16>, Duration);

/// Parse `table` and run `morx::apply` on a one glyph run in a separate thread.
/// Returns `None` if the call did not return within `TIMEOUT`.
fn apply_with_timeout(table: Vec<u8>) -> Option<Report> {
    let (tx, rx) = mpsc::channel::<Report>();
    thread::spawn(move || {
        let morx_table = match ReadScope::new(&table).read_dep::<MorxTable<'_>>(NUM_GLYPHS) {
            Ok(morx_table) => morx_table,
            Err(err) => panic!("hand-built morx table was refused by the parser: {:?}", err),
        };
        // Check that the parser saw what we meant it to see.
        assert_eq!(morx_table.chains.len(), 1);
        let chain = &morx_table.chains[0];
        assert_eq!(chain.chain_header.default_flags, 1);
        assert_eq!(chain.subtables.len(), 1);
        assert_eq!(chain.subtables[0].subtable_header.coverage & 0xFF, 1);
        assert_eq!(chain.subtables[0].subtable_header.sub_feature_flags, 1);

        let mut glyphs = glyph_run();
        let features = Features::Mask(FeatureMask::default());
        let start = Instant::now();
        let res = morx::apply(&morx_table, &mut glyphs, &features);
        let elapsed = start.elapsed();
        let gids = glyphs.iter().map(|g| g.glyph_index).collect();
        let _ = tx.send((res, gids, elapsed));
    });

    match rx.recv_timeout(TIMEOUT) {
        Ok(report) => Some(report),
        Err(mpsc::RecvTimeoutError::Timeout) => None,
        Err(mpsc::RecvTimeoutError::Disconnected) => {
            panic!("worker thread panicked before reporting (see message above)")
        }
    }
}

/// Control: same table, entry 1 without DONT_ADVANCE. Must return promptly.
#[test]
fn a_control_without_dont_advance_returns() {
    let table = build_morx(0x0000);
    println!("control morx table ({} bytes):\n{}", table.len(), hex_dump(&table));
    match apply_with_timeout(table) {
        Some((res, gids, elapsed)) => {
            println!(
                "control: morx::apply returned {:?} after {:?}, glyphs = {:?}",
                res, elapsed, gids
            );
            assert!(res.is_ok());
            assert_eq!(gids, vec![GLYPH]);
        }
        None => panic!(
            "CONTROL HANG: morx::apply did not return within {:?} even without DONT_ADVANCE",
            TIMEOUT
        ),
    }
}

/// Hostile table: entry 1 has DONT_ADVANCE and newState = 0. Passes if `morx::apply` returns
/// (Ok or Err), fails if it is still running after 5 seconds.
#[test]
fn b_dont_advance_self_loop_must_terminate() {
    let table = build_morx(DONT_ADVANCE);
    println!("hostile morx table ({} bytes):\n{}", table.len(), hex_dump(&table));
    match apply_with_timeout(table) {
        Some((res, gids, elapsed)) => {
            println!(
                "hostile: morx::apply returned {:?} after {:?}, glyphs = {:?}",
                res, elapsed, gids
            );
        }
        None => panic!(
            "HANG: allsorts::layout::morx::apply did not return within {:?} on a 104 byte morx \
             table and a 1 glyph run: entry (state 0, class 4) has DONT_ADVANCE (0x4000) and \
             newState 0, so the 'glyph loop in ContextualSubstitution::process_glyphs never exits",
            TIMEOUT
        ),
    }
}
