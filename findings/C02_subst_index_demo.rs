// Demonstration: a contextual substitution (GSUB type 5) whose input sequence is
// shorter than the ligature (GSUB type 4) it invokes as nested lookup.
//
// apply_subst_context computes len = glyphs spanned by the input sequence, the nested
// ligature removes `compCount - 1` glyphs from the WHOLE glyph vector, and
// `checked_add(len, changes)` goes negative -> panic!("apply_subst_context: len < 0").

use std::panic::{catch_unwind, AssertUnwindSafe};

use allsorts::binary::read::ReadScope;
use allsorts::gsub::{gsub_apply_lookup, GlyphOrigin, RawGlyph, RawGlyphFlags};
use allsorts::layout::{new_layout_cache, LayoutTable, GSUB};
use allsorts::tag;

use tinyvec::tiny_vec;

fn be(words: &[u16]) -> Vec<u8> {
    words.iter().flat_map(|w| w.to_be_bytes()).collect()
}

/// Build a minimal GSUB table.
///
/// `ctx_input` = the glyphs of the SubRule input sequence AFTER the first glyph
/// (the first glyph is glyph 1, given by the coverage table); so the SubRule's
/// glyphCount is `ctx_input.len() + 1`.
fn build_gsub(ctx_input: &[u16]) -> Vec<u8> {
    // ---- ScriptList (20 bytes) ----
    let mut script_list = Vec::new();
    script_list.extend(be(&[1])); // scriptCount
    script_list.extend(b"DFLT"); // scriptTag
    script_list.extend(be(&[8])); // scriptOffset (from ScriptList)
    // Script table @8
    script_list.extend(be(&[4, 0])); // defaultLangSysOffset = 4, langSysCount = 0
    // LangSys @ script+4
    script_list.extend(be(&[0, 0xFFFF, 1, 0])); // lookupOrder, reqFeatureIndex, featureIndexCount, featureIndices[0]
    assert_eq!(script_list.len(), 20);

    // ---- FeatureList (14 bytes) ----
    let mut feature_list = Vec::new();
    feature_list.extend(be(&[1])); // featureCount
    feature_list.extend(b"liga");
    feature_list.extend(be(&[8])); // featureOffset (from FeatureList)
    feature_list.extend(be(&[0, 1, 0])); // featureParams, lookupIndexCount, lookupListIndices[0] = 0
    assert_eq!(feature_list.len(), 14);

    // ---- Lookup 0: type 5 context subst, format 1 ----
    let mut lookup0 = Vec::new();
    lookup0.extend(be(&[5, 0, 1, 8])); // lookupType, lookupFlag, subTableCount, subtableOffsets[0]
    // subtable @8 (offsets below relative to the subtable)
    lookup0.extend(be(&[1, 8, 1, 14])); // substFormat, coverageOffset, subRuleSetCount, subRuleSetOffsets[0]
    lookup0.extend(be(&[1, 1, 1])); // Coverage format 1, glyphCount 1, glyph 1        (@8, 6 bytes)
    lookup0.extend(be(&[1, 4])); // SubRuleSet: subRuleCount 1, subRuleOffsets[0] = 4   (@14)
    // SubRule @ SubRuleSet+4
    lookup0.extend(be(&[ctx_input.len() as u16 + 1, 1])); // glyphCount, substCount
    lookup0.extend(be(ctx_input)); // inputSequence[glyphCount - 1]
    lookup0.extend(be(&[0, 1])); // SubstLookupRecord { sequenceIndex 0, lookupListIndex 1 }

    // ---- Lookup 1: type 4 ligature subst, format 1 ----
    let mut lookup1 = Vec::new();
    lookup1.extend(be(&[4, 0, 1, 8])); // lookupType, lookupFlag, subTableCount, subtableOffsets[0]
    lookup1.extend(be(&[1, 8, 1, 14])); // substFormat, coverageOffset, ligSetCount, ligatureSetOffsets[0]
    lookup1.extend(be(&[1, 1, 1])); // Coverage format 1, glyphCount 1, glyph 1
    lookup1.extend(be(&[1, 4])); // LigatureSet: ligatureCount 1, ligatureOffsets[0] = 4
    lookup1.extend(be(&[5, 3, 2, 3])); // Ligature: ligGlyph 5, compCount 3, components [2, 3]

    // ---- LookupList ----
    let mut lookup_list = Vec::new();
    lookup_list.extend(be(&[2, 6, 6 + lookup0.len() as u16])); // lookupCount, lookupOffsets[2]
    lookup_list.extend(&lookup0);
    lookup_list.extend(&lookup1);

    // ---- GSUB header ----
    let script_off = 10u16;
    let feature_off = script_off + script_list.len() as u16;
    let lookup_off = feature_off + feature_list.len() as u16;
    let mut gsub = Vec::new();
    gsub.extend(be(&[1, 0, script_off, feature_off, lookup_off]));
    gsub.extend(&script_list);
    gsub.extend(&feature_list);
    gsub.extend(&lookup_list);
    gsub
}

fn make_glyph(glyph_index: u16) -> RawGlyph<()> {
    let ch = char::from(b'a' + glyph_index as u8);
    RawGlyph {
        unicodes: tiny_vec![[char; 1] => ch],
        glyph_index,
        liga_component_pos: 0,
        glyph_origin: GlyphOrigin::Char(ch),
        flags: RawGlyphFlags::empty(),
        extra_data: (),
        variation: None,
    }
}

/// Returns Ok((result-as-debug-string, glyph ids after)) or Err(panic message)
fn run(ctx_input: &[u16]) -> Result<(String, Vec<u16>), String> { run_seg(ctx_input, 0, 3) }
fn run_seg(ctx_input: &[u16], lookup: usize, seg_len: usize) -> Result<(String, Vec<u16>), String> {
    let bytes = build_gsub(ctx_input);
    println!("GSUB table ({} bytes): {:02x?}", bytes.len(), bytes);
    let table = ReadScope::new(&bytes)
        .read::<LayoutTable<GSUB>>()
        .expect("GSUB table parses");
    let cache = new_layout_cache(table);
    let mut glyphs: Vec<RawGlyph<()>> = [1u16, 2, 3].iter().map(|g| make_glyph(*g)).collect();

    let res = catch_unwind(AssertUnwindSafe(|| {
        gsub_apply_lookup(
            &cache,
            &cache.layout_table,
            None,
            lookup,
            tag::LIGA,
            None,
            &mut glyphs,
            0,
            seg_len,
            |_| true,
        )
    }));
    let ids: Vec<u16> = glyphs.iter().map(|g| g.glyph_index).collect();
    match res {
        Ok(r) => Ok((format!("{:?}", r), ids)),
        Err(payload) => {
            let msg = if let Some(s) = payload.downcast_ref::<&str>() {
                s.to_string()
            } else if let Some(s) = payload.downcast_ref::<String>() {
                s.clone()
            } else {
                "<non-string panic payload>".to_string()
            };
            println!("glyphs after panic: {:?}", ids);
            Err(msg)
        }
    }
}


/// context on glyph 1 (glyphCount 1) with TWO nested records at sequence index 0: lookup 1 = MultipleSubst with an empty
/// sequence (deletes the glyph), lookup 2 = SingleSubst 1 -> 7
fn build_gsub_delete_then_single() -> Vec<u8> {
    let mut script_list = Vec::new();
    script_list.extend(be(&[1])); script_list.extend(b"DFLT"); script_list.extend(be(&[8]));
    script_list.extend(be(&[4, 0])); script_list.extend(be(&[0, 0xFFFF, 1, 0]));
    let mut feature_list = Vec::new();
    feature_list.extend(be(&[1])); feature_list.extend(b"liga"); feature_list.extend(be(&[8])); feature_list.extend(be(&[0, 1, 0]));
    let mut lookup0 = Vec::new();
    lookup0.extend(be(&[5, 0, 1, 8]));
    lookup0.extend(be(&[1, 8, 1, 14]));
    lookup0.extend(be(&[1, 1, 1]));
    lookup0.extend(be(&[1, 4]));
    lookup0.extend(be(&[1, 2]));          // glyphCount 1, substCount 2
    lookup0.extend(be(&[0, 1, 0, 2]));    // (seq 0 -> lookup 1), (seq 0 -> lookup 2)
    let mut lookup1 = Vec::new();         // type 2 multiple subst
    lookup1.extend(be(&[2, 0, 1, 8]));
    lookup1.extend(be(&[1, 8, 1, 14]));   // format 1, coverage @8, sequenceCount 1, sequenceOffsets[0] = 14
    lookup1.extend(be(&[1, 1, 1]));       // coverage glyph 1
    lookup1.extend(be(&[0]));             // Sequence: glyphCount 0
    let mut lookup2 = Vec::new();         // type 1 single subst format 2
    lookup2.extend(be(&[1, 0, 1, 8]));
    lookup2.extend(be(&[2, 8, 1, 7]));    // format 2, coverage @8, glyphCount 1, substitute 7
    lookup2.extend(be(&[1, 1, 1]));
    let mut lookup_list = Vec::new();
    let o0 = 8u16; let o1 = o0 + lookup0.len() as u16; let o2 = o1 + lookup1.len() as u16;
    lookup_list.extend(be(&[3, o0, o1, o2]));
    lookup_list.extend(&lookup0); lookup_list.extend(&lookup1); lookup_list.extend(&lookup2);
    let script_off = 10u16; let feature_off = script_off + script_list.len() as u16; let lookup_off = feature_off + feature_list.len() as u16;
    let mut gsub = Vec::new();
    gsub.extend(be(&[1, 0, script_off, feature_off, lookup_off]));
    gsub.extend(&script_list); gsub.extend(&feature_list); gsub.extend(&lookup_list);
    gsub
}

#[test]
fn nested_lookup_after_deletion_must_not_panic() {
    let bytes = build_gsub_delete_then_single();
    let table = ReadScope::new(&bytes).read::<LayoutTable<GSUB>>().expect("GSUB table parses");
    let cache = new_layout_cache(table);
    let mut glyphs: Vec<RawGlyph<()>> = vec![make_glyph(1)];
    let res = catch_unwind(AssertUnwindSafe(|| {
        gsub_apply_lookup(&cache, &cache.layout_table, None, 0, tag::LIGA, None, &mut glyphs, 0, 1, |_| true)
    }));
    match res {
        Ok(r) => println!("no panic: {:?}, glyphs left {}", r, glyphs.len()),
        Err(p) => panic!("gsub_apply_lookup PANICKED: {:?}", p.downcast_ref::<String>().cloned().or(p.downcast_ref::<&str>().map(|s| s.to_string()))),
    }
}
