//@ unit C09_loca
//@ props C09 C15
//@ module src/tables/glyf.rs
//@ strength complete in the offset values (3 fully symbolic u32 offsets, both formats) for the loca writer/reader pair; the table length (numGlyphs = 2) is the bound
//@ unverified GlyfTable::write_dep (the loca the glyf writer implies: a harness over 3 records of 3, 0 and 5 symbolic bytes did not finish in 15 min - Vec<GlyfRecord> drop glue; measured twice); head.indexToLocFormat selection in subset_ttf
use crate::binary::write::{WriteBinaryDep, WriteBuffer};
use crate::tables::loca::{self, LocaTable};

//@ harness loca_roundtrip kind=bounded:3offsets_all_values fns=loca::owned::LocaTable::write_dep,LocaTable::read_dep,LocaOffsets::get,LocaOffsets::len timeout=900
#[kani::proof]
#[kani::unwind(5)]
fn loca_roundtrip() {
    let offs: [u32; 3] = kani::any();
    let short: bool = kani::any();
    let fmt = if short { IndexToLocFormat::Short } else { IndexToLocFormat::Long };
    let mut w = WriteBuffer::new();
    let res = loca::owned::LocaTable::write_dep(&mut w, loca::owned::LocaTable { offsets: offs.to_vec() }, fmt);
    let fits = |o: u32| o % 2 == 0 && o / 2 <= 0xFFFF;
    match res {
        Ok(()) => {
            assert!(!short || (fits(offs[0]) && fits(offs[1]) && fits(offs[2])), "the short format is only written when every offset is even and offset/2 fits 16 bits");
            let out = w.bytes();
            assert!(out.len() == if short { 6 } else { 12 }, "numGlyphs + 1 entries of 2 or 4 bytes");
            let back = ReadScope::new(out).read_dep::<LocaTable<'_>>((2, fmt)).unwrap();
            assert!(back.offsets.len() == 3);
            let k: usize = kani::any();
            kani::assume(k < 3);
            assert!(back.offsets.get(k) == Some(offs[k]), "the reader yields the offset that was written (short entries store offset / 2)");
            if short {
                let stored = ((out[2 * k] as u32) << 8) | out[2 * k + 1] as u32;
                assert!(stored * 2 == offs[k], "short entry k is offset k divided by two, big-endian");
            }
        }
        Err(_) => assert!(short && !(fits(offs[0]) && fits(offs[1]) && fits(offs[2])), "only unrepresentable short offsets are refused; the long format always succeeds"),
    }
}
