//@ unit C18_ops
//@ props C18
//@ module src/cff/outline/charstring.rs
//@ strength bounded(per operator: one argument-count variant each, operands small integers (i8) so that every f32 sum is exact; start point symbolic)
//@ note each harness drives the REAL operator with a recording sink and compares with the path the Type 2 specification (Adobe TN#5177) assigns to it
//@ unverified the remaining operators and argument-count variants (hvcurveto/vhcurveto beyond 9 arguments, hflex, hflex1, flex, vvcurveto), width prefix detection, CFF2 blend
use pathfinder_geometry::line_segment::LineSegment2F;
use pathfinder_geometry::vector::Vector2F;

#[derive(Copy, Clone, PartialEq)]
enum Cmd { M(f32, f32), L(f32, f32), C(f32, f32, f32, f32, f32, f32), Z, None }
struct Rec { cmds: [Cmd; 6], n: usize }
impl OutlineSink for Rec {
    fn move_to(&mut self, to: Vector2F) { self.cmds[self.n] = Cmd::M(to.x(), to.y()); self.n += 1; }
    fn line_to(&mut self, to: Vector2F) { self.cmds[self.n] = Cmd::L(to.x(), to.y()); self.n += 1; }
    fn quadratic_curve_to(&mut self, _c: Vector2F, _to: Vector2F) { panic!("Type 2 paths have no quadratic segments"); }
    fn cubic_curve_to(&mut self, c: LineSegment2F, to: Vector2F) { self.cmds[self.n] = Cmd::C(c.from().x(), c.from().y(), c.to().x(), c.to().y(), to.x(), to.y()); self.n += 1; }
    fn close(&mut self) { self.cmds[self.n] = Cmd::Z; self.n += 1; }
}

fn run<const N: usize>(ops: &[i8; N], x0: i8, y0: i8, f: impl FnOnce(&mut CharStringParser<'_, Rec>, &ArgumentsStack<'_, f32>) -> Result<(), CFFError>) -> (Result<(), CFFError>, Rec, f32, f32) {
    let mut rec = Rec { cmds: [Cmd::None; 6], n: 0 };
    let mut data = [0f32; N];
    let mut i = 0;
    while i < N { data[i] = ops[i] as f32; i += 1; }
    let stack = ArgumentsStack { data: &mut data, len: N, max_len: N };
    let (r, x, y) = {
        let mut builder = Builder { builder: &mut rec, bbox: crate::cff::outline::BBox::new() };
        let mut p = CharStringParser { builder: &mut builder, x: x0 as f32, y: y0 as f32, has_move_to: true, is_first_move_to: false, temp: [0.0; cff::MAX_OPERANDS] };
        let r = f(&mut p, &stack);
        (r, p.x, p.y)
    };
    (r, rec, x, y)
}

fn flex1_case(small: bool) {
    let a: [i8; 11] = kani::any();
    if small {
        let mut i = 0;
        while i < 11 { kani::assume(a[i] >= -3 && a[i] <= 3); i += 1; }
    }

    let (x0, y0): (i8, i8) = (kani::any(), kani::any());
    let (r, rec, x, y) = run(&a, x0, y0, |p, s| p.parse_flex1(s));
    assert!(r.is_ok());
    let v = |i: usize| a[i] as i32;
    let (sx, sy) = (x0 as i32, y0 as i32);
    let (x1, y1) = (sx + v(0), sy + v(1));
    let (x2, y2) = (x1 + v(2), y1 + v(3));
    let (x3, y3) = (x2 + v(4), y2 + v(5));
    let (x4, y4) = (x3 + v(6), y3 + v(7));
    let (x5, y5) = (x4 + v(8), y4 + v(9));
    // TN#5177 flex1: (dx, dy) = sum of the first five deltas; if |dx| > |dy| the last point is (x5 + d6, y0) else (x0, y5 + d6)
    let (dx, dy) = (x5 - sx, y5 - sy);
    let (x6, y6) = if dx.abs() > dy.abs() { (x5 + v(10), sy) } else { (sx, y5 + v(10)) };
    assert!(rec.n == 2);
    assert!(rec.cmds[0] == Cmd::C(x1 as f32, y1 as f32, x2 as f32, y2 as f32, x3 as f32, y3 as f32));
    assert!(rec.cmds[1] == Cmd::C(x4 as f32, y4 as f32, x5 as f32, y5 as f32, x6 as f32, y6 as f32), "flex1: d6 is horizontal only when |dx| > |dy| (vertical on a tie)");
    assert!(x == x6 as f32 && y == y6 as f32, "current point after the operator");
}


//@ harness op_flex1 kind=bounded:11operands_in_-3..3 fns=CharStringParser::parse_flex1 timeout=900
#[kani::proof]
#[kani::unwind(13)]
fn op_flex1() { flex1_case(true) }

//@ harness op_flex1_full kind=bounded:11operands_i8 fns=CharStringParser::parse_flex1 timeout=1500 tier=thorough
#[kani::proof]
#[kani::unwind(13)]
fn op_flex1_full() { flex1_case(false) }

//@ harness op_rlineto kind=bounded:4operands fns=CharStringParser::parse_line_to timeout=600
#[kani::proof]
#[kani::unwind(6)]
fn op_rlineto() {
    let a: [i8; 4] = kani::any();
    let (x0, y0): (i8, i8) = (kani::any(), kani::any());
    let (r, rec, x, y) = run(&a, x0, y0, |p, s| p.parse_line_to(s));
    assert!(r.is_ok());
    let (x1, y1) = (x0 as i32 + a[0] as i32, y0 as i32 + a[1] as i32);
    let (x2, y2) = (x1 + a[2] as i32, y1 + a[3] as i32);
    assert!(rec.n == 2 && rec.cmds[0] == Cmd::L(x1 as f32, y1 as f32) && rec.cmds[1] == Cmd::L(x2 as f32, y2 as f32), "rlineto: one line per (dx, dy) pair at the accumulated point");
    assert!(x == x2 as f32 && y == y2 as f32);
}

//@ harness op_hhcurveto_odd kind=bounded:5operands fns=CharStringParser::parse_hh_curve_to timeout=600
#[kani::proof]
#[kani::unwind(7)]
fn op_hhcurveto_odd() {
    // dy1 dxa dxb dyb dxc : the odd leading argument is a dy applied to the first curve's start
    let a: [i8; 5] = kani::any();
    let (x0, y0): (i8, i8) = (kani::any(), kani::any());
    let (r, rec, x, y) = run(&a, x0, y0, |p, s| p.parse_hh_curve_to(s));
    assert!(r.is_ok());
    let v = |i: usize| a[i] as i32;
    let ys = y0 as i32 + v(0);
    let (x1, y1) = (x0 as i32 + v(1), ys);
    let (x2, y2) = (x1 + v(2), y1 + v(3));
    let (x3, y3) = (x2 + v(4), y2);
    assert!(rec.n == 1 && rec.cmds[0] == Cmd::C(x1 as f32, y1 as f32, x2 as f32, y2 as f32, x3 as f32, y3 as f32), "hhcurveto with the optional dy1");
    assert!(x == x3 as f32 && y == y3 as f32);
}

//@ harness op_arg_counts kind=bounded:argument_count_checks fns=CharStringParser::parse_flex1,CharStringParser::parse_line_to,CharStringParser::parse_hh_curve_to timeout=600
#[kani::proof]
#[kani::unwind(8)]
fn op_arg_counts() {
    // wrong argument counts are reported, nothing is drawn
    let a3: [i8; 3] = kani::any();
    let (r, rec, _, _) = run(&a3, 0, 0, |p, s| p.parse_line_to(s));
    assert!(r.is_err() && rec.n == 0);
    let (r, rec, _, _) = run(&a3, 0, 0, |p, s| p.parse_flex1(s));
    assert!(r.is_err() && rec.n == 0);
    let a6: [i8; 6] = kani::any();
    let (r, rec, _, _) = run(&a6, 0, 0, |p, s| p.parse_hh_curve_to(s));
    assert!(r.is_err() && rec.n == 0);
}

// ---- hvcurveto / vhcurveto (TN#5177 4.1): curves alternate between "starts horizontal, ends vertical" and
//      "starts vertical, ends horizontal"; an odd trailing argument belongs to the LAST curve and is the delta of the
//      coordinate that curve would otherwise leave unchanged at its end point
fn alt_curves_spec<const N: usize>(a: &[i8; N], x0: i8, y0: i8, first_horizontal: bool) -> ([Cmd; 6], usize, i32, i32) {
    let v = |i: usize| a[i] as i32;
    let (mut x, mut y) = (x0 as i32, y0 as i32);
    let mut out = [Cmd::None; 6];
    let mut n = 0;
    let curves = N / 4;
    let mut horizontal = first_horizontal;
    let mut k = 0;
    while k < curves {
        let b = 4 * k;
        let last = k + 1 == curves;
        let extra = if last && N % 4 == 1 { v(N - 1) } else { 0 };
        let (x1, y1, x2, y2, x3, y3);
        if horizontal {
            x1 = x + v(b); y1 = y;
            x2 = x1 + v(b + 1); y2 = y1 + v(b + 2);
            y3 = y2 + v(b + 3); x3 = x2 + extra;
        } else {
            x1 = x; y1 = y + v(b);
            x2 = x1 + v(b + 1); y2 = y1 + v(b + 2);
            x3 = x2 + v(b + 3); y3 = y2 + extra;
        }
        out[n] = Cmd::C(x1 as f32, y1 as f32, x2 as f32, y2 as f32, x3 as f32, y3 as f32);
        n += 1;
        x = x3; y = y3;
        horizontal = !horizontal;
        k += 1;
    }
    (out, n, x, y)
}

fn alt_case<const N: usize>(first_horizontal: bool) {
    let a: [i8; N] = kani::any();
    let mut i = 0;
    while i < N { kani::assume(a[i] >= -4 && a[i] <= 4); i += 1; }
    let (x0, y0): (i8, i8) = (kani::any(), kani::any());
    let (r, rec, x, y) = if first_horizontal { run(&a, x0, y0, |p, s| p.parse_hv_curve_to(s)) } else { run(&a, x0, y0, |p, s| p.parse_vh_curve_to(s)) };
    assert!(r.is_ok());
    let (want, n, wx, wy) = alt_curves_spec(&a, x0, y0, first_horizontal);
    assert!(rec.n == n, "one curve per four arguments");
    let mut i = 0;
    while i < n { assert!(rec.cmds[i] == want[i], "curve control and end points per TN#5177"); i += 1; }
    assert!(x == wx as f32 && y == wy as f32, "current point after the operator");
}

//@ harness op_hvcurveto_4_5 kind=bounded:4_and_5_operands_in_-4..4 fns=CharStringParser::parse_hv_curve_to timeout=900
#[kani::proof]
#[kani::unwind(8)]
fn op_hvcurveto_4_5() { alt_case::<4>(true); alt_case::<5>(true); }

//@ harness op_hvcurveto_8_9 kind=bounded:8_and_9_operands_in_-4..4 fns=CharStringParser::parse_hv_curve_to timeout=1200
#[kani::proof]
#[kani::unwind(12)]
fn op_hvcurveto_8_9() { alt_case::<8>(true); alt_case::<9>(true); }

//@ harness op_vhcurveto_4_5 kind=bounded:4_and_5_operands_in_-4..4 fns=CharStringParser::parse_vh_curve_to timeout=900
#[kani::proof]
#[kani::unwind(8)]
fn op_vhcurveto_4_5() { alt_case::<4>(false); alt_case::<5>(false); }

//@ harness op_vhcurveto_8_9 kind=bounded:8_and_9_operands_in_-4..4 fns=CharStringParser::parse_vh_curve_to timeout=1200
#[kani::proof]
#[kani::unwind(12)]
fn op_vhcurveto_8_9() { alt_case::<8>(false); alt_case::<9>(false); }

//@ harness op_hlineto_vlineto kind=bounded:3operands fns=CharStringParser::parse_horizontal_line_to,CharStringParser::parse_vertical_line_to timeout=600
#[kani::proof]
#[kani::unwind(6)]
fn op_hlineto_vlineto() {
    // hlineto dx1 {dya dxb}* : alternating horizontal / vertical lines starting horizontal; vlineto starts vertical
    let a: [i8; 3] = kani::any();
    let (x0, y0): (i8, i8) = (kani::any(), kani::any());
    let v = |i: usize| a[i] as i32;
    let (sx, sy) = (x0 as i32, y0 as i32);
    let (r, rec, x, y) = run(&a, x0, y0, |p, s| p.parse_horizontal_line_to(s));
    assert!(r.is_ok() && rec.n == 3);
    assert!(rec.cmds[0] == Cmd::L((sx + v(0)) as f32, sy as f32) && rec.cmds[1] == Cmd::L((sx + v(0)) as f32, (sy + v(1)) as f32)
        && rec.cmds[2] == Cmd::L((sx + v(0) + v(2)) as f32, (sy + v(1)) as f32), "hlineto alternates starting horizontal");
    assert!(x == (sx + v(0) + v(2)) as f32 && y == (sy + v(1)) as f32);
    let (r, rec, x, y) = run(&a, x0, y0, |p, s| p.parse_vertical_line_to(s));
    assert!(r.is_ok() && rec.n == 3);
    assert!(rec.cmds[0] == Cmd::L(sx as f32, (sy + v(0)) as f32) && rec.cmds[1] == Cmd::L((sx + v(1)) as f32, (sy + v(0)) as f32)
        && rec.cmds[2] == Cmd::L((sx + v(1)) as f32, (sy + v(0) + v(2)) as f32), "vlineto alternates starting vertical");
    assert!(x == (sx + v(1)) as f32 && y == (sy + v(0) + v(2)) as f32);
}

//@ harness op_rrcurveto_rcurveline kind=bounded:6_and_8_operands fns=CharStringParser::parse_curve_to,CharStringParser::parse_curve_line,CharStringParser::parse_line_curve timeout=900
#[kani::proof]
#[kani::unwind(10)]
fn op_rrcurveto_rcurveline() {
    let a: [i8; 8] = kani::any();
    let mut i = 0;
    while i < 8 { kani::assume(a[i] >= -8 && a[i] <= 8); i += 1; }
    let (x0, y0): (i8, i8) = (kani::any(), kani::any());
    let v = |i: usize| a[i] as i32;
    let (sx, sy) = (x0 as i32, y0 as i32);
    // rrcurveto {dxa dya dxb dyb dxc dyc}+
    let a6 = [a[0], a[1], a[2], a[3], a[4], a[5]];
    let (x1, y1) = (sx + v(0), sy + v(1)); let (x2, y2) = (x1 + v(2), y1 + v(3)); let (x3, y3) = (x2 + v(4), y2 + v(5));
    let (r, rec, x, y) = run(&a6, x0, y0, |p, s| p.parse_curve_to(s));
    assert!(r.is_ok() && rec.n == 1 && rec.cmds[0] == Cmd::C(x1 as f32, y1 as f32, x2 as f32, y2 as f32, x3 as f32, y3 as f32), "rrcurveto");
    assert!(x == x3 as f32 && y == y3 as f32);
    // rcurveline {dxa dya dxb dyb dxc dyc}+ dxd dyd : curves, then one line
    let (r, rec, x, y) = run(&a, x0, y0, |p, s| p.parse_curve_line(s));
    assert!(r.is_ok() && rec.n == 2 && rec.cmds[0] == Cmd::C(x1 as f32, y1 as f32, x2 as f32, y2 as f32, x3 as f32, y3 as f32)
        && rec.cmds[1] == Cmd::L((x3 + v(6)) as f32, (y3 + v(7)) as f32), "rcurveline");
    assert!(x == (x3 + v(6)) as f32 && y == (y3 + v(7)) as f32);
    // rlinecurve {dxa dya}+ dxb dyb dxc dyc dxd dyd : lines, then one curve
    let (lx, ly) = (sx + v(0), sy + v(1));
    let (c1x, c1y) = (lx + v(2), ly + v(3)); let (c2x, c2y) = (c1x + v(4), c1y + v(5)); let (ex, ey) = (c2x + v(6), c2y + v(7));
    let (r, rec, x, y) = run(&a, x0, y0, |p, s| p.parse_line_curve(s));
    assert!(r.is_ok() && rec.n == 2 && rec.cmds[0] == Cmd::L(lx as f32, ly as f32)
        && rec.cmds[1] == Cmd::C(c1x as f32, c1y as f32, c2x as f32, c2y as f32, ex as f32, ey as f32), "rlinecurve");
    assert!(x == ex as f32 && y == ey as f32);
}
