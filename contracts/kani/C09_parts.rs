//@ unit C09_parts
//@ props C09
//@ module src/subset.rs
//@ strength complete (loop-free, all u16) for the offset-table search fields; the sfnt writer as a whole is NOT verified
//@ unverified FontBuilder::{write_table_directory,data} (BTreeMap<u32, WriteBuffer>: out of CBMC's reach, measured 15 min / 5 GB for one table), table order, padding, per-table checksums, head checkSumAdjustment back-patch, cross-table consistency of maxp/hhea/hmtx/cmap/post, the CFF writer's two-pass DICT offsets

//@ harness search_fields kind=complete fns=max_power_of_2
#[kani::proof]
fn search_fields() {
    // OpenType table directory: entrySelector = floor(log2(numTables)), searchRange = 2^entrySelector * 16, rangeShift = numTables*16 - searchRange
    let n: u16 = kani::any();
    kani::assume(n >= 1);
    let p = max_power_of_2(n);
    assert!(p <= 15);
    assert!((1u32 << p) <= n as u32 && (n as u32) < (1u32 << (p + 1)), "entrySelector is the largest power of two not above numTables");
    // the u16 expressions of write_offset_table do not overflow for any table count a font can plausibly carry
    if n <= 4095 {
        let search_range = (1u32 << p) * 16;
        assert!(search_range <= 0xFFFF && (n as u32) * 16 >= search_range && (n as u32) * 16 - search_range <= 0xFFFF);
    }
}
