//@ unit C04_flag
//@ props C04 C05 C02
//@ module src/layout.rs
//@ strength complete (loop-free apart from the size-1 GDEF tables; all u16 lookup flags x all glyph classes / attachment classes / set membership)
//@ note GDEF tables of size 1 realise every (class, attach class, in-set) triple for the probed glyph; match_glyph touches GDEF only
//@ note through gdef::{glyph_class, mark_attach_class, glyph_is_mark_in_set}.
//@ note OpenType leaves the combination MarkAttachmentType != 0 together with UseMarkFilteringSet unspecified; it is excluded.
use crate::context::{Glyph, IgnoreMarks, LookupFlag, MatchType};

struct TestGlyph(u16);
impl Glyph for TestGlyph {
    fn get_glyph_index(&self) -> u16 { self.0 }
}

/// OpenType "lookupFlag bit enumeration": is the glyph looked at (true) or skipped (false)?
fn spec_not_skipped(flag: u16, mfs: Option<u16>, class: u16, attach_class: u16, in_set: bool) -> bool {
    if flag & 0x0002 != 0 && class == 1 { return false; }            // IGNORE_BASE_GLYPHS
    if flag & 0x0004 != 0 && class == 2 { return false; }            // IGNORE_LIGATURES
    if class != 3 { return true; }                                    // the remaining bits only concern marks
    if flag & 0x0008 != 0 { return false; }                           // IGNORE_MARKS
    if flag & 0xFF00 != 0 { return attach_class == (flag >> 8); }     // MARK_ATTACHMENT_TYPE_MASK: skip marks of a different attachment type
    if flag & 0x0010 != 0 {                                           // USE_MARK_FILTERING_SET: skip marks not in the set
        return match mfs { Some(_) => in_set, None => true };
    }
    true
}

//@ harness match_glyph_conforms kind=complete fns=MatchType::match_glyph,MatchType::from_lookup_flag,LookupFlag::get_ignore_marks,LookupFlag::get_ignore_bases,LookupFlag::get_ignore_ligatures,LookupFlag::use_mark_filtering_set,gdef::glyph_class,gdef::mark_attach_class,gdef::glyph_is_mark_in_set
#[kani::proof]
#[kani::unwind(3)]
fn match_glyph_conforms() {
    let g: u16 = kani::any();
    let class: u16 = kani::any();
    let aclass: u16 = kani::any();
    let flag: u16 = kani::any();
    let mfs: Option<u16> = kani::any();
    let in_set: bool = kani::any();
    let with_gdef: bool = kani::any();
    kani::assume(!(flag & 0xFF00 != 0 && flag & 0x0010 != 0));
    // one mark glyph set, stored at the index the lookup names (index 0); membership of g symbolic
    if let Some(ix) = mfs { kani::assume(ix == 0); }
    let set = if in_set { Coverage::Format1 { glyph_array: vec![g] } } else { Coverage::Format1 { glyph_array: vec![] } };
    let gdef = GDEFTable {
        opt_glyph_classdef: Some(ClassDef::Format1 { start_glyph: g, class_value_array: vec![class] }),
        opt_mark_attach_classdef: Some(ClassDef::Format1 { start_glyph: g, class_value_array: vec![aclass] }),
        opt_mark_glyph_sets: Some(MarkGlyphSets { sets: vec![set] }),
        opt_item_variation_store: None,
    };
    let mt = MatchType::from_lookup_flag(LookupFlag(flag), mfs);
    let got = mt.match_glyph(Some(&gdef), &TestGlyph(g));
    let want = spec_not_skipped(flag, mfs, class, aclass, in_set);
    assert!(got == want, "match_glyph follows the OpenType lookup-flag rule");
    kani::cover!(got && class == 3 && flag & 0x10 != 0);
    kani::cover!(!got && class == 3 && flag & 0xFF00 != 0);
}

//@ harness match_glyph_no_gdef kind=complete fns=MatchType::match_glyph,gdef::glyph_class
#[kani::proof]
fn match_glyph_no_gdef() {
    // without a GDEF table every glyph has class 0: nothing is ever skipped, whatever the flags
    let flag: u16 = kani::any();
    let mfs: Option<u16> = kani::any();
    let g: u16 = kani::any();
    let mt = MatchType::from_lookup_flag(LookupFlag(flag), mfs);
    assert!(mt.match_glyph(None, &TestGlyph(g)));
}
