//@ unit C10_woff
//@ props C10
//@ module src/woff.rs
//@ strength complete for the stored (uncompressed) path: any directory entry with comp_length == orig_length over a 24-byte file
//@ assume flate2 (zlib) inflates correctly: the compressed path is outside the contracts

//@ harness woff_stored_table kind=bounded:24bytes fns=TableDirectoryEntry::read_table,TableDirectoryEntry::is_compressed
#[kani::proof]
fn woff_stored_table() {
    let f: [u8; 24] = kani::any();
    let off: u32 = kani::any();
    let len: u32 = kani::any();
    let e = TableDirectoryEntry { tag: kani::any(), offset: off, comp_length: len, orig_length: len, orig_checksum: kani::any() };
    match e.read_table(&ReadScope::new(&f)) {
        Ok(buf) => {
            let data = buf.scope().data();
            assert!(data.len() == len as usize, "exactly the stored length");
            if len > 0 {
                assert!((off as usize) < 24 && len as usize <= 24 - off as usize);
                let j: usize = kani::any();
                kani::assume(j < len as usize);
                assert!(data[j] == f[off as usize + j], "byte for byte the stored table");
            }
        }
        Err(_) => assert!(off as usize >= 24 || len as usize > 24 - off as usize, "an error only when the window leaves the file"),
    }
}

//@ harness woff_is_compressed kind=complete fns=TableDirectoryEntry::is_compressed
#[kani::proof]
fn woff_is_compressed() {
    // WOFF 1.0: a table is stored uncompressed exactly when compLength == origLength; any other pair must go through inflate
    let e = TableDirectoryEntry { tag: kani::any(), offset: kani::any(), comp_length: kani::any(), orig_length: kani::any(), orig_checksum: kani::any() };
    assert!(e.is_compressed() == (e.comp_length != e.orig_length));
}
