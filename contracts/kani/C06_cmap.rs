//@ unit C06_cmap
//@ props C06 C01
//@ module src/tables/cmap.rs
//@ strength offset_to_index: function contract, full domain (proof_for_contract). format 4/6/10/12 look-ups: bounded (<=2 segments/groups, <=2 array entries), probe code fully symbolic
//@ unverified format 2 (needs 518+ bytes of table), Big5 (encoding_rs external), Font::legacy_symbol_char_code in situ
use super::owned as o;

// ---- function contract on the real offset_to_index (DESIGN A.2) --------------------------------------------------
//@ above src/tables/cmap.rs | fn offset_to_index
#[cfg_attr(kani, kani::requires(i <= 0xFFFF && id_range_offsets_len <= 0xFFFF))]
#[cfg_attr(kani, kani::ensures(|r: &Result<usize, ParseError>| {
    let off = id_range_offset as usize + 2 * i + 2 * (start_code_offset as usize);
    match r {
        Ok(ix) => off % 2 == 0 && off >= 2 * id_range_offsets_len && *ix == off / 2 - id_range_offsets_len,
        Err(_) => off % 2 == 1 || off < 2 * id_range_offsets_len,
    }
}))]
//@ end

//@ harness offset_to_index_contract kind=contract fns=offset_to_index
#[kani::proof_for_contract(offset_to_index)]
fn offset_to_index_contract() {
    let _ = offset_to_index(kani::any(), kani::any(), kani::any(), kani::any());
}

// ---- OpenType cmap format 4 rule, transcribed from the specification text -------------------------------------------
fn spec_cmap4(t: &o::CmapSubtableFormat4, c: u32) -> Result<Option<u16>, ()> {
    if c > 0xFFFF { return Ok(None); }  // a format 4 sub-table only maps 16-bit codes
    let c = c as u16;
    let n = t.end_codes.len();
    let mut i = 0;
    while i < n {
        // "search for the first endCode that is greater than or equal to the character code"; allsorts takes the first segment
        // that CONTAINS the code, which agrees on well-formed (sorted, disjoint) segment lists; the harness assumes such lists
        if t.start_codes[i] <= c && c <= t.end_codes[i] {
            let mut ro = t.id_range_offsets[i];
            if ro == 0xFFFF { ro = 0; } // documented Fontographer work-around kept by the implementation
            if ro == 0 {
                return Ok(Some(((c as i32 + t.id_deltas[i] as i32) & 0xFFFF) as u16));
            }
            // glyphId = *(idRangeOffset[i]/2 + (c - startCode[i]) + &idRangeOffset[i])
            let off = ro as usize + 2 * i + 2 * (c - t.start_codes[i]) as usize;
            if off % 2 == 1 || off < 2 * n { return Err(()); }
            let ix = off / 2 - n;
            if ix >= t.glyph_id_array.len() { return Err(()); }
            let g = t.glyph_id_array[ix];
            // "If the value obtained from the indexing operation is not 0 (which indicates missingGlyph), idDelta[i] is added to it"
            if g == 0 { return Ok(Some(0)); }
            return Ok(Some(((g as i32 + t.id_deltas[i] as i32) & 0xFFFF) as u16));
        }
        i += 1;
    }
    Ok(None)
}

fn any_format4() -> o::CmapSubtableFormat4 {
    let n: usize = kani::any();
    kani::assume(n <= 2);
    let s: [u16; 2] = kani::any();
    let e: [u16; 2] = kani::any();
    let d: [i16; 2] = kani::any();
    let r: [u16; 2] = kani::any();
    let g: [u16; 2] = kani::any();
    let gl: usize = kani::any();
    kani::assume(gl <= 2);
    kani::assume(s[0] <= e[0] && s[1] <= e[1] && e[0] < s[1]);
    o::CmapSubtableFormat4 {
        language: 0,
        end_codes: e[..n].to_vec(),
        start_codes: s[..n].to_vec(),
        id_deltas: d[..n].to_vec(),
        id_range_offsets: r[..n].to_vec(),
        glyph_id_array: g[..gl].to_vec(),
    }
}

//@ harness format4_map_glyph kind=bounded:2segments fns=Format4::map_glyph,Format4::glyph_id_for_id_range_offset,offset_to_index,owned::CmapSubtable::map_glyph timeout=600
#[kani::proof]
#[kani::unwind(4)]
fn format4_map_glyph() {
    let t = any_format4();
    let c: u32 = kani::any();
    let want = spec_cmap4(&t, c);
    let got = o::CmapSubtable::Format4(t).map_glyph(c);
    match (got, want) {
        (Ok(g), Ok(w)) => assert!(g == w, "format 4: glyph per the segment/idDelta/idRangeOffset rule; unmapped codes give None"),
        (Err(e), Ok(None)) => assert!(c > 0xFFFF && e == ParseError::BadValue, "codes above 0xFFFF are rejected (treated as unmapped by the callers)"),
        (Err(_), Err(())) => {}
        _ => panic!("format 4 disagrees with the specification rule"),
    }
}

//@ harness format4_mappings kind=bounded:2segments fns=Format4::mappings_fn,Format4::map_glyph timeout=900 tier=thorough
#[kani::proof]
#[kani::unwind(5)]
fn format4_mappings() {
    // enumeration lists exactly the pairs single look-ups return (segments of at most 3 codes)
    let t = any_format4();
    let n = t.end_codes.len();
    kani::assume(n == 0 || t.end_codes[0] - t.start_codes[0] < 3);
    kani::assume(n < 2 || t.end_codes[1] - t.start_codes[1] < 3);
    let probe: u16 = kani::any();
    let mut seen: Option<u16> = None;
    let mut count = 0u32;
    let r = (&t).mappings_fn(|ch, gid| { if ch == probe as u32 { seen = Some(gid); count += 1; } });
    if r.is_ok() {
        let single = (&t).map_glyph(probe as u32);
        assert!(count <= 1);
        assert!(single == Ok(seen), "mappings_fn lists (code, glyph) iff map_glyph(code) == glyph");
    }
}

//@ harness format6_10 kind=bounded:2entries fns=owned::CmapSubtable::map_glyph
#[kani::proof]
#[kani::unwind(4)]
fn format6_10() {
    let c: u32 = kani::any();
    let arr: [u16; 2] = kani::any();
    let n: usize = kani::any();
    kani::assume(n <= 2);
    if kani::any() {
        let first: u16 = kani::any();
        let t = o::CmapSubtable::Format6 { language: 0, first_code: first, glyph_id_array: arr[..n].to_vec() };
        let want = if c >= first as u32 && ((c - first as u32) as usize) < n { Some(arr[(c - first as u32) as usize]) } else { None };
        assert!(t.map_glyph(c) == Ok(want), "format 6: glyphIdArray[c - firstCode], None outside");
    } else {
        let start: u32 = kani::any();
        let t = o::CmapSubtable::Format10 { language: 0, start_char_code: start, glyph_id_array: arr[..n].to_vec() };
        let want = if c >= start && ((c - start) as usize) < n { Some(arr[(c - start) as usize]) } else { None };
        assert!(t.map_glyph(c) == Ok(want), "format 10: glyphs[c - startCharCode], None outside");
    }
}

//@ harness format12_owned kind=bounded:2groups fns=owned::CmapSubtable::map_glyph
#[kani::proof]
#[kani::unwind(4)]
fn format12_owned() {
    let c: u32 = kani::any();
    let g: [(u32, u32, u32); 2] = kani::any();
    let n: usize = kani::any();
    kani::assume(n <= 2);
    let mut groups: Vec<SequentialMapGroup> = Vec::new();
    let mut i = 0;
    while i < n {
        groups.push(SequentialMapGroup { start_char_code: g[i].0, end_char_code: g[i].1, start_glyph_id: g[i].2 });
        i += 1;
    }
    let t = o::CmapSubtable::Format12(o::CmapSubtableFormat12 { language: 0, groups });
    // first group containing c: startGlyphID + (c - startCharCode); a glyph id that does not fit 16 bits is an error, not a panic
    let mut want: Result<Option<u16>, ()> = Ok(None);
    let mut i = 0;
    while i < n {
        if g[i].0 <= c && c <= g[i].1 {
            let gid = g[i].2 as u64 + (c - g[i].0) as u64;
            want = if gid <= 0xFFFF { Ok(Some(gid as u16)) } else { Err(()) };
            break;
        }
        i += 1;
    }
    let got = t.map_glyph(c);
    match want { Ok(w) => assert!(got == Ok(w), "format 12: group rule"), Err(()) => assert!(got.is_err()) }
}

fn format12_bytes(g: &[(u32, u32, u32); 2]) -> [u8; 40] {
    let mut b = [0u8; 40];
    b[1] = 12;
    b[7] = 40;
    b[15] = 2;
    let mut i = 0;
    while i < 2 {
        let vals = [g[i].0, g[i].1, g[i].2];
        let mut j = 0;
        while j < 3 {
            let at = 16 + 12 * i + 4 * j;
            b[at] = (vals[j] >> 24) as u8; b[at + 1] = (vals[j] >> 16) as u8; b[at + 2] = (vals[j] >> 8) as u8; b[at + 3] = vals[j] as u8;
            j += 1;
        }
        i += 1;
    }
    b
}

//@ harness format12_borrowed kind=bounded:2groups fns=CmapSubtable::read,CmapSubtable::map_glyph timeout=600
#[kani::proof]
#[kani::unwind(5)]
fn format12_borrowed() {
    // borrowed reader on real bytes: format 12, 2 groups, against the group rule
    let g: [(u32, u32, u32); 2] = kani::any();
    let b = format12_bytes(&g);
    let t = ReadScope::new(&b).read::<CmapSubtable<'_>>().unwrap();
    let c: u32 = kani::any();
    let mut want: Result<Option<u16>, ()> = Ok(None);
    let mut i = 0;
    while i < 2 {
        if g[i].0 <= c && c <= g[i].1 {
            let gid = g[i].2 as u64 + (c - g[i].0) as u64;
            want = if gid <= 0xFFFF { Ok(Some(gid as u16)) } else { Err(()) };
            break;
        }
        i += 1;
    }
    let got = t.map_glyph(c);
    match want { Ok(w) => assert!(got == Ok(w), "format 12 (borrowed): group rule"), Err(()) => assert!(got.is_err()) }
}

//@ harness format12_mappings kind=bounded:2groups_x_2codes fns=CmapSubtable::mappings_fn,CmapSubtable::map_glyph timeout=900 tier=thorough
#[kani::proof]
#[kani::unwind(5)]
fn format12_mappings() {
    let g: [(u32, u32, u32); 2] = kani::any();
    kani::assume(g[0].1 >= g[0].0 && g[0].1 - g[0].0 < 2 && g[1].1 >= g[1].0 && g[1].1 - g[1].0 < 2 && g[0].1 < g[1].0);
    let b = format12_bytes(&g);
    let t = ReadScope::new(&b).read::<CmapSubtable<'_>>().unwrap();
    let c: u32 = kani::any();
    let mut seen: Option<u16> = None;
    let r = t.mappings_fn(|ch, gid| { if ch == c { seen = Some(gid); } });
    let got = t.map_glyph(c);
    if r.is_ok() && got.is_ok() {
        assert!(got == Ok(seen), "mappings_fn lists exactly the pairs map_glyph returns");
    }
}

//@ harness subheader_contains kind=complete fns=SubHeader::contains tier=quick
#[kani::proof]
fn subheader_contains() {
    // cmap format 2 sub-header: the codes firstCode .. firstCode + entryCount - 1; any field values, no panic
    let h = SubHeader { first_code: kani::any(), entry_count: kani::any(), id_delta: kani::any(), id_range_offset: kani::any() };
    let v: u16 = kani::any();
    let want = (v as u32) >= h.first_code as u32 && (v as u32) < h.first_code as u32 + h.entry_count as u32;
    assert!(h.contains(v) == want);
}
