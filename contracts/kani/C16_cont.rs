//@ unit C16_cont
//@ props C16 C01
//@ module src/tables/glyf/outline.rs
//@ strength bounded(one contour of 4 and of 5 points: all on/off-curve patterns with concrete pairwise-distinct coordinates, under the identity and under a scale-2-plus-offset component transform; 3 points with fully symbolic i16 coordinates in the thorough tier)
//@ note exact f32 equality is sound here: every intermediate value is a dyadic rational below 2^17
//@ unverified composite traversal over a real glyf table (visit_outline / visit_composite_glyph_outline need a GlyfTable with parsed records)
use crate::tables::glyf::{BoundingBox, Point, SimpleGlyphFlag};

// Kani attaches an integer-style "would overflow" check + assumption to the float SIMD intrinsics behind pathfinder's Vector2F
// (spurious on float lanes, and the assumption silently prunes every path that goes through Vector2F::lerp / + / - / *).
// The SSE operations are therefore stubbed by their lane-wise IEEE definition (Intel SDM: ADDPS/SUBPS/MULPS operate per lane).
use std::arch::x86_64::__m128;
fn lanes(a: __m128) -> [f32; 4] { unsafe { std::mem::transmute(a) } }
fn pack(a: [f32; 4]) -> __m128 { unsafe { std::mem::transmute(a) } }
fn stub_add_ps(a: __m128, b: __m128) -> __m128 { let (a, b) = (lanes(a), lanes(b)); pack([a[0] + b[0], a[1] + b[1], a[2] + b[2], a[3] + b[3]]) }
fn stub_sub_ps(a: __m128, b: __m128) -> __m128 { let (a, b) = (lanes(a), lanes(b)); pack([a[0] - b[0], a[1] - b[1], a[2] - b[2], a[3] - b[3]]) }
fn stub_mul_ps(a: __m128, b: __m128) -> __m128 { let (a, b) = (lanes(a), lanes(b)); pack([a[0] * b[0], a[1] * b[1], a[2] * b[2], a[3] * b[3]]) }

#[derive(Copy, Clone, PartialEq, Debug)]
enum Cmd { M(f32, f32), L(f32, f32), Q(f32, f32, f32, f32), Z, None }

struct Rec { cmds: [Cmd; 12], n: usize }
impl OutlineSink for Rec {
    fn move_to(&mut self, to: Vector2F) { self.cmds[self.n] = Cmd::M(to.x(), to.y()); self.n += 1; }
    fn line_to(&mut self, to: Vector2F) { self.cmds[self.n] = Cmd::L(to.x(), to.y()); self.n += 1; }
    fn quadratic_curve_to(&mut self, c: Vector2F, to: Vector2F) { self.cmds[self.n] = Cmd::Q(c.x(), c.y(), to.x(), to.y()); self.n += 1; }
    fn cubic_curve_to(&mut self, _c: pathfinder_geometry::line_segment::LineSegment2F, _to: Vector2F) { panic!("TrueType outlines have no cubic segments"); }
    fn close(&mut self) { self.cmds[self.n] = Cmd::Z; self.n += 1; }
}

/// TrueType contour semantics, written from the glyf specification (not from the code): expand the cyclic point list with the
/// implied on-curve midpoint between consecutive off-curve points, start at the first on-curve point of the contour if point 0 is
/// on-curve, else at the last point if that is on-curve, else at the implied midpoint between the last and the first point; then
/// visit the expanded list cyclically: on-curve -> line, off-curve + following on-curve -> quadratic; close.
fn spec_path<const N: usize>(on: &[bool; N], x: &[i16; N], y: &[i16; N]) -> Rec {
    let mut out = Rec { cmds: [Cmd::None; 12], n: 0 };
    // expanded cyclic list: (on, x, y), at most 2N entries
    let mut e_on = [false; 10]; let mut e_x = [0f32; 10]; let mut e_y = [0f32; 10];
    let mut m = 0;
    let mut i = 0;
    while i < N {
        e_on[m] = on[i]; e_x[m] = x[i] as f32; e_y[m] = y[i] as f32; m += 1;
        let j = (i + 1) % N;
        if !on[i] && !on[j] {
            e_on[m] = true; e_x[m] = (x[i] as f32 + x[j] as f32) * 0.5; e_y[m] = (y[i] as f32 + y[j] as f32) * 0.5; m += 1;
        }
        i += 1;
    }
    // start index in the expanded list
    let start = if on[0] { 0 } else if on[N - 1] {
        // position of the last original point: it is the last original entry; it is on-curve so nothing follows it
        m - 1
    } else {
        m - 1 // the implied midpoint between the last and the first point is the last expanded entry
    };
    out.move_to(Vector2F::new(e_x[start], e_y[start]));
    let mut k = 1;
    while k <= m {
        let idx = (start + k) % m;
        if e_on[idx] {
            if idx != start || true {
                if k < m { out.line_to(Vector2F::new(e_x[idx], e_y[idx])); }
            }
            k += 1;
        } else {
            let nxt = (idx + 1) % m;
            out.quadratic_curve_to(Vector2F::new(e_x[idx], e_y[idx]), Vector2F::new(e_x[nxt], e_y[nxt]));
            k += 2;
        }
    }
    out.close();
    out
}

fn contour_case<const N: usize>(symbolic_coordinates: bool) {
    let on: [bool; N] = kani::any();
    // with concrete (pairwise distinct) coordinates only the on/off-curve pattern is symbolic: all 2^N patterns in seconds
    let fixed_x: [i16; 5] = [0, 100, 50, -30, 7];
    let fixed_y: [i16; 5] = [0, 10, 200, 77, -300];
    let mut x = [0i16; N];
    let mut y = [0i16; N];
    let mut q = 0;
    while q < N {
        x[q] = if symbolic_coordinates { kani::any() } else { fixed_x[q] };
        y[q] = if symbolic_coordinates { kani::any() } else { fixed_y[q] };
        q += 1;
    }
    let mut coords = Vec::new();
    let mut i = 0;
    while i < N {
        coords.push((if on[i] { SimpleGlyphFlag::ON_CURVE_POINT } else { SimpleGlyphFlag::empty() }, Point(x[i], y[i])));
        i += 1;
    }
    let glyph = SimpleGlyph {
        bounding_box: BoundingBox { x_min: 0, y_min: 0, x_max: 0, y_max: 0 },
        end_pts_of_contours: vec![(N - 1) as u16],
        instructions: &[],
        coordinates: coords,
        phantom_points: None,
    };
    let mut rec = Rec { cmds: [Cmd::None; 12], n: 0 };
    // the component transform (composite glyphs): every delivered point is  scale * p + offset ; scale 2 and offset (5, -3) keep f32 exact
    let scaled: bool = kani::any();
    let (k, dx, dy) = if scaled { (2.0f32, 5.0f32, -3.0f32) } else { (1.0f32, 0.0f32, 0.0f32) };
    GlyfTable::visit_simple_glyph_outline(&mut rec, Transform2F { vector: Vector2F::new(dx, dy), matrix: Matrix2x2F::from_scale(k) }, &glyph).unwrap();
    let mut want = spec_path::<N>(&on, &x, &y);
    let mut t = 0;
    while t < want.n {
        want.cmds[t] = match want.cmds[t] {
            Cmd::M(a, b) => Cmd::M(k * a + dx, k * b + dy),
            Cmd::L(a, b) => Cmd::L(k * a + dx, k * b + dy),
            Cmd::Q(a, b, c, d) => Cmd::Q(k * a + dx, k * b + dy, k * c + dx, k * d + dy),
            other => other,
        };
        t += 1;
    }
    kani::cover!(scaled, "a non-identity component transform is explored");
    // vacuity guards: the patterns that need implied mid-points (also across the closing edge) are really explored
    kani::cover!(!on[0] && !on[1], "two consecutive off-curve points");
    kani::cover!(!on[0] && !on[N - 1], "off-curve first and last point");
    kani::cover!(!on[0] && on[N - 1] && !on[N - 2], "start off-curve, end on-curve, penultimate off-curve");
    assert!(rec.n == want.n, "number of drawing commands");
    let mut k = 0;
    while k < 12 {
        if k < want.n { assert!(rec.cmds[k] == want.cmds[k], "drawing command k traces the contour as specified"); }
        k += 1;
    }
}

//@ harness contour_patterns4 kind=bounded:4points_all_16_patterns fns=GlyfTable::visit_simple_glyph_outline,Contour::calculate_origin,Contour::points,Points::next,SimpleGlyph::contours timeout=900 props=C16
#[kani::proof]
#[kani::stub(std::arch::x86_64::_mm_add_ps, stub_add_ps)]
#[kani::stub(std::arch::x86_64::_mm_sub_ps, stub_sub_ps)]
#[kani::stub(std::arch::x86_64::_mm_mul_ps, stub_mul_ps)]
#[kani::unwind(14)]
fn contour_patterns4() { contour_case::<4>(false) }

//@ harness contour_patterns5 kind=bounded:5points_all_32_patterns fns=GlyfTable::visit_simple_glyph_outline,Contour::calculate_origin,Contour::points,Points::next timeout=900 props=C16
#[kani::proof]
#[kani::stub(std::arch::x86_64::_mm_add_ps, stub_add_ps)]
#[kani::stub(std::arch::x86_64::_mm_sub_ps, stub_sub_ps)]
#[kani::stub(std::arch::x86_64::_mm_mul_ps, stub_mul_ps)]
#[kani::unwind(16)]
fn contour_patterns5() { contour_case::<5>(false) }

//@ harness contour3 kind=bounded:3points_symbolic_coordinates fns=GlyfTable::visit_simple_glyph_outline,Contour::calculate_origin,Contour::points,Points::next timeout=1500 tier=thorough props=C16
#[kani::proof]
#[kani::stub(std::arch::x86_64::_mm_add_ps, stub_add_ps)]
#[kani::stub(std::arch::x86_64::_mm_sub_ps, stub_sub_ps)]
#[kani::stub(std::arch::x86_64::_mm_mul_ps, stub_mul_ps)]
#[kani::unwind(14)]
fn contour3() { contour_case::<3>(true) }

//@ harness contour_ends kind=bounded:2contours fns=SimpleGlyph::contours,Contour::new timeout=600
#[kani::proof]
#[kani::stub(std::arch::x86_64::_mm_add_ps, stub_add_ps)]
#[kani::stub(std::arch::x86_64::_mm_sub_ps, stub_sub_ps)]
#[kani::stub(std::arch::x86_64::_mm_mul_ps, stub_mul_ps)]
#[kani::unwind(8)]
fn contour_ends() {
    // any endPtsOfContours over 3 points (non-monotone, repeated, out of range): no panic, only an error or a (possibly shorter) path
    let ends: [u16; 2] = kani::any();
    let mut coords = Vec::new();
    let mut i = 0;
    while i < 3 { coords.push((SimpleGlyphFlag::ON_CURVE_POINT, Point(kani::any(), kani::any()))); i += 1; }
    let glyph = SimpleGlyph { bounding_box: BoundingBox { x_min: 0, y_min: 0, x_max: 0, y_max: 0 }, end_pts_of_contours: vec![ends[0], ends[1]], instructions: &[], coordinates: coords, phantom_points: None };
    let mut rec = Rec { cmds: [Cmd::None; 12], n: 0 };
    let _ = GlyfTable::visit_simple_glyph_outline(&mut rec, Transform2F { vector: Vector2F::zero(), matrix: Matrix2x2F::from_scale(1.0) }, &glyph);
}
