//@ unit C12_phan
//@ props C12 C01
//@ module src/tables/glyf.rs
//@ strength complete (loop-free: every bounding box, hmtx / vmtx metric and hhea ascender / descender value)
//@ unverified the OS/2 typo-metric branch (same arithmetic on two other fields), the callers in variations.rs that add deltas to the phantom points
// Phantom points used by glyph instancing (OpenType gvar chapter): pp1 = (xMin - lsb, 0), pp2 = (pp1.x + aw, 0), pp3 = (0, yMax + tsb),
// pp4 = (0, pp3.y - ah). All inputs are font-controlled 16-bit values: the result is the specified points or an error, never a panic.
use crate::tables::{HmtxTable, HheaTable};

fn hhea(asc: i16, desc: i16) -> HheaTable {
    HheaTable { ascender: asc, descender: desc, line_gap: 0, advance_width_max: 0, min_left_side_bearing: 0, min_right_side_bearing: 0, x_max_extent: 0, caret_slope_rise: 0, caret_slope_run: 0, caret_offset: 0, num_h_metrics: 1 }
}

//@ harness phantom_points kind=complete fns=calculate_phantom_points timeout=900
#[kani::proof]
#[kani::unwind(4)]
fn phantom_points() {
    let (aw, lsb): (u16, i16) = (kani::any(), kani::any());
    let hm = [(aw >> 8) as u8, aw as u8, (lsb as u16 >> 8) as u8, lsb as u8];
    let hmtx = ReadScope::new(&hm).read_dep::<HmtxTable<'_>>((1, 1)).unwrap();
    let (ah, tsb): (u16, i16) = (kani::any(), kani::any());
    let vm = [(ah >> 8) as u8, ah as u8, (tsb as u16 >> 8) as u8, tsb as u8];
    let vmtx = ReadScope::new(&vm).read_dep::<HmtxTable<'_>>((1, 1)).unwrap();
    let with_vmtx: bool = kani::any();
    let bbox = if kani::any() { Some(BoundingBox { x_min: kani::any(), y_min: kani::any(), x_max: kani::any(), y_max: kani::any() }) } else { None };
    let h = hhea(kani::any(), kani::any());
    let r = calculate_phantom_points(0, bbox, &hmtx, if with_vmtx { Some(&vmtx) } else { None }, None, &h);
    if let Ok(pp) = r {
        let x_min = bbox.map(|b| b.x_min as i32).unwrap_or(0);
        let y_max = bbox.map(|b| b.y_max as i32).unwrap_or(0);
        assert!(pp[0].0 as i32 == x_min - lsb as i32 && pp[0].1 == 0, "pp1 = (xMin - lsb, 0)");
        assert!(pp[1].0 as i32 == x_min - lsb as i32 + aw as i32 && pp[1].1 == 0, "pp2 = (pp1.x + advance width, 0)");
        let (adv_h, top) = if with_vmtx { (ah as i32, tsb as i32) } else { (h.ascender as i32 - h.descender as i32, h.ascender as i32 - y_max) };
        assert!(pp[2].0 == 0 && pp[2].1 as i32 == y_max + top, "pp3 = (0, yMax + tsb)");
        assert!(pp[3].0 == 0 && pp[3].1 as i32 == y_max + top - adv_h, "pp4 = (0, pp3.y - advance height)");
    }
}
