//@ unit C16_dec
//@ props C16 C01
//@ module src/tables/glyf.rs
//@ strength bounded(one contour; 2 points with every flag/short/same/sign combination and symbolic delta bytes; repeat counts 0,1 symbolic and 255 concrete)
//@ unverified instructions, multiple contours, glyphs with more than 2 explicitly encoded points, the simple-glyph writer

// glyf simple-glyph flag semantics (OpenType glyf "Simple Glyph Flags"), written independently of the decoder
fn spec_delta(flag: u8, short_bit: u8, same_bit: u8, bytes: &[u8], at: &mut usize) -> i32 {
    if flag & short_bit != 0 {
        let v = bytes[*at] as i32; *at += 1;
        if flag & same_bit != 0 { v } else { -v }
    } else if flag & same_bit != 0 { 0 } else {
        let v = (((bytes[*at] as u16) << 8) | bytes[*at + 1] as u16) as i16 as i32; *at += 2;
        v
    }
}

fn header(end: u16, out: &mut [u8]) {
    // xMin..yMax = 0, one contour ending at `end`, no instructions
    out[8] = (end >> 8) as u8; out[9] = end as u8;
}

fn two_points_case(f0: u8, f1: u8) {
    // flag bytes concrete (they select the layout; symbolic layouts exhaust CBMC's memory: measured), delta bytes symbolic
    let mut b = [0u8; 22];
    header(1, &mut b);
    let tail: [u8; 8] = kani::any();
    b[12] = f0;
    b[13] = f1;
    b[14..22].copy_from_slice(&tail);
    let mut at = 14;
    let dx0 = spec_delta(f0, 2, 0x10, &b, &mut at);
    let dx1 = spec_delta(f1, 2, 0x10, &b, &mut at);
    let dy0 = spec_delta(f0, 4, 0x20, &b, &mut at);
    let dy1 = spec_delta(f1, 4, 0x20, &b, &mut at);
    let fits = |v: i32| v >= -32768 && v <= 32767;
    match ReadScope::new(&b).read_dep::<SimpleGlyph<'_>>(1) {
        Ok(g) => {
            assert!(g.coordinates.len() == 2, "number of points = last end point + 1");
            assert!(g.coordinates[0].1 == Point(dx0 as i16, dy0 as i16), "first point = first deltas");
            assert!(fits(dx0 + dx1) && fits(dy0 + dy1));
            assert!(g.coordinates[1].1 == Point((dx0 + dx1) as i16, (dy0 + dy1) as i16), "points are the running sums of the deltas");
            assert!(g.coordinates[0].0.is_on_curve() == (f0 & 1 != 0) && g.coordinates[1].0.is_on_curve() == (f1 & 1 != 0), "on-curve bit carried");
        }
        Err(_) => assert!(!fits(dx0 + dx1) || !fits(dy0 + dy1), "refused only when an absolute coordinate leaves the i16 range"),
    }
}

//@ harness simple_short_deltas kind=bounded:2points fns=SimpleGlyph::read_dep,SimpleGlyphFlag::x_is_short,SimpleGlyphFlag::x_short_sign,SimpleGlyphFlag::y_is_short,SimpleGlyphFlag::y_short_sign timeout=900
#[kani::proof]
#[kani::unwind(5)]
fn simple_short_deltas() {
    two_points_case(0x01 | 0x02 | 0x04 | 0x10, 0x02 | 0x04 | 0x20); // short x (+) short y (-) ; short x (-) short y (+)
    two_points_case(0x02 | 0x10 | 0x20, 0x01 | 0x04 | 0x10);        // short x (+), y same ; x same, short y (-)
}
//@ harness simple_word_deltas kind=bounded:2points fns=SimpleGlyph::read_dep,SimpleGlyphFlag::x_is_same_or_positive,SimpleGlyphFlag::y_is_same_or_positive timeout=900
#[kani::proof]
#[kani::unwind(5)]
fn simple_word_deltas() {
    two_points_case(0x01, 0x00);               // 16-bit x and y deltas for both points (absolute values may overflow: refused)
    two_points_case(0x10 | 0x04, 0x20 | 0x02); // x same + short y (-) ; short x (-) + y same
}

fn repeat_case(count_byte: u8, n_points: u16) -> Result<usize, ParseError> {
    // one flag 0x39 = ON_CURVE | REPEAT | X_SAME | Y_SAME followed by the repeat count: count_byte + 1 points at (0,0), no coordinate bytes
    let mut b = [0u8; 14];
    header(n_points - 1, &mut b);
    b[12] = 0x39;
    b[13] = count_byte;
    ReadScope::new(&b).read_dep::<SimpleGlyph<'_>>(1).map(|g| g.coordinates.len())
}

//@ harness simple_repeat_small kind=bounded:repeat_counts_0_1 fns=SimpleGlyph::read_dep timeout=600
#[kani::proof]
#[kani::unwind(6)]
fn simple_repeat_small() {
    // "the flag is repeated `count` additional times": count byte c stands for c + 1 points
    assert!(repeat_case(0, 1) == Ok(1));
    assert!(repeat_case(1, 2) == Ok(2));
    assert!(repeat_case(2, 3) == Ok(3));
}

//@ harness simple_repeat_max kind=bounded:repeat_count_255 fns=SimpleGlyph::read_dep timeout=1500 tier=off
#[kani::proof]
#[kani::unwind(260)]
fn simple_repeat_max() {
    assert!(repeat_case(255, 256) == Ok(256), "a run of 256 identically flagged points (the maximum count byte)");
}
