//@ unit C13_seg
//@ props C13
//@ module src/tables/variable_fonts/avar.rs
//@ strength bounded(4 knots with concrete from-coordinates, symbolic to-coordinates and input)
//@ unverified AvarTable::segment_maps (Iterator::scan closure) is exercised only through C13_norm

fn seg_map_bytes(n: u16, knots: &[(i16, i16); 4]) -> [u8; 18] {
    let mut b = [0u8; 18];
    b[0] = (n >> 8) as u8;
    b[1] = n as u8;
    let mut i = 0;
    while i < 4 {
        let (f, t) = knots[i];
        b[2 + 4 * i] = (f >> 8) as u8;
        b[3 + 4 * i] = f as u8;
        b[4 + 4 * i] = (t >> 8) as u8;
        b[5 + 4 * i] = t as u8;
        i += 1;
    }
    b
}

// Decides WHICH knots are used and that the result is the 16.16 composition
//     to_s + ((v - from_s) / (from_e - from_s)) * (to_e - to_s)
// of the Fixed operators (contracts: Verus C13_dn for div, Kani F_ops for add/sub/mul). The accuracy and monotonicity of that
// composition over the integers are Verus lemmas (C13_dn: lemma_segment_accuracy / lemma_segment_monotone).
// One harness per segment index k: with a symbolic k CBMC has to prove two differently-muxed 64-bit multipliers equal and
// does not finish in 700 s (measured); with k concrete each takes seconds.
fn seg_case(k: usize) {
    // from-coordinates concrete (-1, -0.25, 0.5, 1): a symbolic divisor (from_e - from_s) makes the 64-bit division intractable
    // for CBMC (measured: 700 s timeout); to-coordinates and the input value fully symbolic
    let to: [i16; 4] = kani::any();
    let knots: [(i16, i16); 4] = [(-16384, to[0]), (-4096, to[1]), (8192, to[2]), (16384, to[3])];
    let bytes = seg_map_bytes(4, &knots);
    let map = ReadScope::new(&bytes[..]).read::<SegmentMap<'_>>().unwrap();
    let v: i32 = kani::any();
    let r = map.normalize(Fixed::from_raw(v));
    let fx = |x: i16| Fixed::from(F2Dot14::from_raw(x));
    if v > (knots[3].0 as i32) * 4 {
        assert!(r.raw_value() == v, "beyond the last knot the value is unchanged");
    }
    if v == (knots[0].0 as i32) * 4 {
        assert!(r == fx(knots[0].1), "the first knot maps to its to-coordinate");
    }
    let (f0, f1) = ((knots[k - 1].0 as i32) * 4, (knots[k].0 as i32) * 4);
    if v == f1 {
        assert!(r == fx(knots[k].1), "at a knot the map returns the knot's to-coordinate");
    }
    if v > f0 && v < f1 {
        let ratio = (Fixed::from_raw(v) - fx(knots[k - 1].0)) / (fx(knots[k].0) - fx(knots[k - 1].0));
        let want = fx(knots[k - 1].1) + ratio * (fx(knots[k].1) - fx(knots[k - 1].1));
        assert!(r == want, "strictly inside segment k the result is the linear interpolation between knots k-1 and k");
    }
}

//@ harness seg_normalize_k1 kind=bounded:4knots fns=SegmentMap::normalize,SegmentMap::read
#[kani::proof]
#[kani::unwind(6)]
fn seg_normalize_k1() { seg_case(1) }
//@ harness seg_normalize_k2 kind=bounded:4knots fns=SegmentMap::normalize,SegmentMap::read
#[kani::proof]
#[kani::unwind(6)]
fn seg_normalize_k2() { seg_case(2) }
//@ harness seg_normalize_k3 kind=bounded:4knots fns=SegmentMap::normalize,SegmentMap::read
#[kani::proof]
#[kani::unwind(6)]
fn seg_normalize_k3() { seg_case(3) }

//@ harness seg_identity kind=bounded:1knot fns=SegmentMap::normalize
#[kani::proof]
#[kani::unwind(6)]
fn seg_identity() {
    // fewer than two records: no segment, the value is unchanged
    let knots: [(i16, i16); 4] = kani::any();
    let one: bool = kani::any();
    let bytes = seg_map_bytes(if one { 1 } else { 0 }, &knots);
    let map = ReadScope::new(&bytes[..if one { 6 } else { 2 }]).read::<SegmentMap<'_>>().unwrap();
    let v: i32 = kani::any();
    assert!(map.normalize(Fixed::from_raw(v)).raw_value() == v);
}
