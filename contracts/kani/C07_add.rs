//@ unit C07_add
//@ props C07 C09
//@ module src/tables/glyf/subset.rs
//@ strength bounded(<=3 glyph ids already selected, composite with 2 components; ids fully symbolic)
//@ unverified the `as u16` cast of the new id is exact only below 65536 retained glyphs (subset_ttf checks that afterwards via u16::try_from)
use crate::tables::glyf::{BoundingBox, CompositeGlyphArgument, CompositeGlyphComponent, CompositeGlyphFlag};

//@ harness add_glyph_renumbers kind=bounded:3ids_2components fns=add_glyph timeout=600
#[kani::proof]
#[kani::unwind(7)]
fn add_glyph_renumbers() {
    let pre: [u16; 3] = kani::any();
    let n: usize = kani::any();
    kani::assume(n >= 1 && n <= 3);
    kani::assume(pre[0] != pre[1] && pre[0] != pre[2] && pre[1] != pre[2]); // the requested ids are distinct
    let mut ids: Vec<u16> = pre[..n].to_vec();
    let comp_ids: [u16; 2] = kani::any();
    let comp = |gid: u16| CompositeGlyphComponent { flags: CompositeGlyphFlag::empty(), glyph_index: gid, argument1: CompositeGlyphArgument::U8(0), argument2: CompositeGlyphArgument::U8(0), scale: None };
    let mut composite = CompositeGlyph { bounding_box: BoundingBox { x_min: 0, y_min: 0, x_max: 0, y_max: 0 }, glyphs: vec![comp(comp_ids[0]), comp(comp_ids[1])], instructions: &[], phantom_points: None };
    add_glyph(&mut ids, &mut composite);
    // the requested glyphs keep their positions; pulled-in components are appended once each
    assert!(ids.len() >= n && ids.len() <= n + 2);
    let j: usize = kani::any();
    kani::assume(j < n);
    assert!(ids[j] == pre[j], "requested glyphs stay in the requested order");
    let c: usize = kani::any();
    kani::assume(c < 2);
    let new = composite.glyphs[c].glyph_index as usize;
    assert!(new < ids.len() && ids[new] == comp_ids[c], "every component now refers to the new id of the glyph it referred to");
    // no duplicates are appended
    let (a, b): (usize, usize) = (kani::any(), kani::any());
    kani::assume(a < b && b < ids.len());
    assert!(ids[a] != ids[b], "a glyph already present is reused, not appended again");
}
