//@ unit C05_iter
//@ props C05
//@ module src/gpos.rs
//@ strength bounded(runs of 4 glyphs, every mark / non-mark pattern; the visited index pairs are recorded)
//@ note MarkBasePos: every glyph after a base, up to AND INCLUDING the next glyph that GDEF does not class as a mark, is offered to the lookup
//@ note (the lookup's own mark coverage decides whether it attaches: a font without GDEF mark classes still gets its marks anchored); MarkMarkPos: mark pairs inside one run of marks.
//@ unverified the lookup-flag handling of these two iterators (they do not consult the flags), forall_glyph_pairs_match (generic over MatchType + closures over the lookup cache)
use std::cell::RefCell;
use tinyvec::tiny_vec;

fn mk(is_mark: bool) -> Info {
    let glyph = crate::gsub::RawGlyph { unicodes: tiny_vec![], glyph_index: 1, liga_component_pos: 0, glyph_origin: crate::gsub::GlyphOrigin::Direct, flags: crate::gsub::RawGlyphFlags::empty(), variation: None, extra_data: () };
    Info { glyph, kerning: 0, placement: Placement::None, is_mark }
}

//@ harness base_mark_pairs kind=bounded:4glyphs_all_16_patterns fns=forall_base_mark_glyph_pairs timeout=900
#[kani::proof]
#[kani::unwind(7)]
fn base_mark_pairs() {
    let m: [bool; 4] = kani::any();
    let mut infos = [mk(m[0]), mk(m[1]), mk(m[2]), mk(m[3])];
    let seen = RefCell::new([[false; 4]; 4]);
    let calls = RefCell::new(0usize);
    let r = forall_base_mark_glyph_pairs(&mut infos, |i, j, _infos| { seen.borrow_mut()[i][j] = true; *calls.borrow_mut() += 1; Ok(()) });
    assert!(r.is_ok());
    let seen = seen.into_inner();
    // specification: (i, j) is offered  <=>  i is not a mark, i < j, every glyph strictly between i and j is a mark
    let mut want_calls = 0;
    let mut i = 0;
    while i < 4 {
        let mut j = 0;
        while j < 4 {
            let mut between_all_marks = true;
            let mut k = i + 1;
            while k < j { if !m[k] { between_all_marks = false; } k += 1; }
            let want = !m[i] && i < j && between_all_marks;
            assert!(seen[i][j] == want, "base/mark candidate pairs: the base and every following glyph up to and including the next non-mark");
            if want { want_calls += 1; }
            j += 1;
        }
        i += 1;
    }
    assert!(*calls.borrow() == want_calls, "each pair is offered once");
}
