//@ unit C12_var
//@ props C12 C01
//@ module src/tables/variable_fonts.rs
//@ strength complete (loop-free, all 4 x i16) for calculate_scalar and read_count; bounded(<=3 runs, <=8 bytes) for packed deltas
//@ unverified instance() orchestration, ItemVariationStore::adjustment, HVAR/MVAR/cvar/CFF2 plumbing, TupleVariationHeader::variation_data (X/Y deltas are ONE packed stream of 2n values: covered only by harness packed_xy_stream's precondition), table removal

//@ harness region_scalar kind=complete fns=calculate_scalar
#[kani::proof]
fn region_scalar() {
    let (i, s, p, e): (i16, i16, i16, i16) = (kani::any(), kani::any(), kani::any(), kani::any());
    // well-formed region: start <= peak <= end, within [-1,1], not straddling zero with a non-zero peak (OpenType: otherwise ignored)
    kani::assume(s <= p && p <= e && s >= -16384 && e <= 16384 && i >= -16384 && i <= 16384);
    let r = calculate_scalar(F2Dot14::from_raw(i), F2Dot14::from_raw(s), F2Dot14::from_raw(p), F2Dot14::from_raw(e));
    assert!(!r.is_nan());
    if p == 0 {
        assert!(r == 1.0, "an axis whose peak is zero is ignored");
    } else if i < s || i > e {
        assert!(r == 0.0, "outside the region the region does not apply");
    } else if i == p {
        assert!(r == 1.0, "at the peak the scalar is one");
    }
}

//@ harness region_scalar_inside kind=bounded:7bit_coordinates fns=calculate_scalar timeout=900 tier=thorough
#[kani::proof]
fn region_scalar_inside() {
    // strictly inside the region and off the peak: the scalar is the linear proportion, in [0, 1] (coordinates restricted to
    // multiples of 2^-6 in [-1, 1]: float division over full 16-bit ranges does not finish under CBMC, measured)
    let (i, s, p, e): (i8, i8, i8, i8) = (kani::any(), kani::any(), kani::any(), kani::any());
    kani::assume(s <= p && p <= e && s >= -64 && e <= 64 && i >= s && i <= e && i != p && p != 0);
    let q = |v: i8| F2Dot14::from_raw(v as i16 * 256);
    let r = calculate_scalar(q(i), q(s), q(p), q(e));
    assert!(r >= 0.0 && r <= 1.0);
    if i < p {
        let d = r * ((p as i32 - s as i32) as f32) - ((i as i32 - s as i32) as f32);
        assert!(d < 0.01 && d > -0.01, "(instance - start) / (peak - start)");
    } else {
        let d = r * ((e as i32 - p as i32) as f32) - ((e as i32 - i as i32) as f32);
        assert!(d < 0.01 && d > -0.01, "(end - instance) / (end - peak)");
    }
}

//@ harness packed_count kind=complete fns=read_count
#[kani::proof]
fn packed_count() {
    let b: [u8; 2] = kani::any();
    let len: usize = kani::any();
    kani::assume(len <= 2);
    let mut ctxt = ReadScope::new(&b[..len]).ctxt();
    let r = read_count(&mut ctxt);
    if len == 0 { assert!(r.is_err()); }
    else if b[0] < 128 { assert!(r == Ok(b[0] as u16)); }
    else if len == 2 { assert!(r == Ok((((b[0] & 0x7F) as u16) << 8) | b[1] as u16)); }
    else { assert!(r.is_err()); }
}

fn delta_run_case(control: u8) {
    // control byte concrete (it selects the run layout; a symbolic layout does not finish under CBMC), payload symbolic
    let mut b: [u8; 8] = kani::any();
    b[0] = control;
    let n = (control & 0x3F) as u32 + 1;
    let mut ctxt = ReadScope::new(&b).ctxt();
    let d = packed_deltas::read(&mut ctxt, n).unwrap();
    assert!(d.len() == n as usize);
    let k: usize = kani::any();
    kani::assume(k < n as usize);
    let want: i16 = if control & 0x80 != 0 { 0 } else if control & 0x40 != 0 { (((b[1 + 2 * k] as u16) << 8) | b[2 + 2 * k] as u16) as i16 } else { b[1 + k] as i8 as i16 };
    assert!(d[k] == want, "zero / byte / word runs decode to the stored deltas");
}

//@ harness packed_deltas_runs kind=bounded:runs_of_2_and_3 fns=packed_deltas::read timeout=900
#[kani::proof]
#[kani::unwind(8)]
fn packed_deltas_runs() {
    delta_run_case(0x81); // two zero deltas, no payload
    delta_run_case(0x41); // two 16-bit deltas
    delta_run_case(0x02); // three 8-bit deltas
}

//@ harness dsim_entry kind=complete fns=DeltaSetIndexMap::entry,DeltaSetIndexMap::entry_size_impl tier=quick
#[kani::proof]
#[kani::unwind(6)]
fn dsim_entry() {
    // DeltaSetIndexMap: entry size ((format & 0x30) >> 4) + 1 bytes, inner index in the low (format & 0x0F) + 1 bits, outer index above;
    // an index at or beyond mapCount uses the last entry; any entryFormat, 2 entries of up to 4 bytes
    let format: u8 = kani::any();
    let data: [u8; 8] = kani::any();
    let size = (((format & 0x30) >> 4) + 1) as usize;
    let count: u32 = kani::any();
    kani::assume(count <= 2);
    let map = DeltaSetIndexMap { entry_format: format, map_count: count, map_data: &data[..size * count as usize] };
    let i: u32 = kani::any();
    match map.entry(i) {
        Ok(e) => {
            assert!(count >= 1);
            let k = if i >= count { count - 1 } else { i } as usize;
            let mut v: u32 = 0;
            let mut j = 0;
            while j < size { v = (v << 8) | data[k * size + j] as u32; j += 1; }
            let bits = (format & 0x0F) as u32 + 1;
            assert!(e.inner_index as u32 == (v & ((1u32 << bits) - 1)) & 0xFFFF, "inner index = low bits");
            assert!(e.outer_index as u32 == (v >> bits) & 0xFFFF, "outer index = the bits above");
        }
        Err(_) => assert!(count == 0, "only an empty map has no entry to fall back to"),
    }
}

//@ harness gvar_xy_split kind=bounded:2points_one_run_across_the_X_Y_boundary fns=TupleVariationHeader::variation_data,TupleVariationHeader::read_point_numbers,packed_deltas::read timeout=900
#[kani::proof]
#[kani::unwind(8)]
fn gvar_xy_split() {
    // gvar tuple data: packed point numbers, then ALL X deltas followed by ALL Y deltas as ONE packed sequence - a run may span the
    // boundary between the two (OpenType "Packed deltas"). Two points, all points referenced, one run of four 8-bit deltas.
    let d: [u8; 4] = kani::any();
    let data = [0x00u8, 0x03, d[0], d[1], d[2], d[3]];
    let header: TupleVariationHeader<'_, Gvar> = TupleVariationHeader {
        variation_data_size: 6,
        tuple_flags_and_index: 0x2000, // PRIVATE_POINT_NUMBERS
        peak_tuple: None,
        intermediate_region: None,
        data: &data,
        variant: PhantomData,
    };
    let v = header.variation_data(gvar::NumPoints::from_raw(2), None).unwrap();
    assert!(v.len() == 2);
    assert!(v.x_coord_deltas.len() == 2 && v.y_coord_deltas.len() == 2);
    assert!(v.x_coord_deltas[0] == d[0] as i8 as i16 && v.x_coord_deltas[1] == d[1] as i8 as i16, "the first half of the packed sequence are the X deltas");
    assert!(v.y_coord_deltas[0] == d[2] as i8 as i16 && v.y_coord_deltas[1] == d[3] as i8 as i16, "the second half are the Y deltas, also when one run covers both");
}
