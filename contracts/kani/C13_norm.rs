//@ unit C13_norm
//@ props C13
//@ module src/tables/variable_fonts/fvar.rs
//@ strength bounded(axes<=2, two concrete axis records; user values at/below the minimum, at the default, at/above the maximum so that the expected tuple is exact)
//@ note the numeric accuracy of default_normalize is proved unbounded in Verus unit C13_dn and of SegmentMap::normalize in C13_seg;
//@ note this unit decides the driver: tuple length check, axis/value/segment-map pairing, second clamp, 16.16 -> 2.14 conversion.

fn put16(b: &mut [u8], at: usize, v: u16) { b[at] = (v >> 8) as u8; b[at + 1] = v as u8; }
fn put32(b: &mut [u8], at: usize, v: u32) { put16(b, at, (v >> 16) as u16); put16(b, at + 2, v as u16); }

fn fvar_bytes(n: u16, axes: &[(i32, i32, i32); 2]) -> [u8; 56] {
    let mut b = [0u8; 56];
    put16(&mut b, 0, 1);
    put16(&mut b, 4, 16);
    put16(&mut b, 6, 2);
    put16(&mut b, 8, n);
    put16(&mut b, 10, 20);
    let mut i = 0;
    while i < 2 {
        let at = 16 + 20 * i;
        put32(&mut b, at + 4, axes[i].0 as u32);
        put32(&mut b, at + 8, axes[i].1 as u32);
        put32(&mut b, at + 12, axes[i].2 as u32);
        i += 1;
    }
    b
}

fn avar_bytes(n: u16, z: &[i16; 2]) -> [u8; 36] {
    // per axis: 3 knots (-1 -> -1), (0 -> z), (1 -> 1)
    let mut b = [0u8; 36];
    put16(&mut b, 0, 1);
    put16(&mut b, 6, n);
    let mut i = 0;
    while i < 2 {
        let at = 8 + 14 * i;
        put16(&mut b, at, 3);
        put16(&mut b, at + 2, (-16384i16) as u16);
        put16(&mut b, at + 4, (-16384i16) as u16);
        put16(&mut b, at + 6, 0);
        put16(&mut b, at + 8, z[i] as u16);
        put16(&mut b, at + 10, 16384);
        put16(&mut b, at + 12, 16384);
        i += 1;
    }
    b
}

fn pick(axis: &(i32, i32, i32), which: u8) -> (i32, i16) {
    // user value and the exact expected default-normalised 2.14 value
    match which {
        0 => (axis.0, if axis.0 < axis.1 { -16384 } else { 0 }),
        1 => (axis.1, 0),
        2 => (axis.2, if axis.2 > axis.1 { 16384 } else { 0 }),
        3 => (axis.0 - 65536, if axis.0 < axis.1 { -16384 } else { 0 }), // below the range: clamped to the minimum
        _ => (axis.2 + 65536, if axis.2 > axis.1 { 16384 } else { 0 }), // above the range: clamped to the maximum
    }
}

//@ harness norm_no_avar kind=bounded:2axes fns=FvarTable::normalize,default_normalize,FvarTable::read timeout=600
#[kani::proof]
#[kani::unwind(6)]
fn norm_no_avar() {
    let n: u16 = 2;
    // concrete axes (the arithmetic over all axes is Verus unit C13_dn): wght 100/400/900 and a wdth axis degenerate on its upper side
    let axes: [(i32, i32, i32); 2] = [(100 << 16, 400 << 16, 900 << 16), (4096000, 100 << 16, 100 << 16)];
    let bytes = fvar_bytes(n, &axes);
    let fvar = ReadScope::new(&bytes[..]).read::<FvarTable<'_>>().unwrap();
    assert!(fvar.axis_count() == n);
    let w: [u8; 2] = kani::any();
    kani::assume(w[0] < 5 && w[1] < 5);
    let (u0, e0) = pick(&axes[0], w[0]);
    let (u1, e1) = pick(&axes[1], w[1]);
    let user = [Fixed::from_raw(u0), Fixed::from_raw(u1)];
    let t = fvar.normalize(user.iter().copied(), None).unwrap();
    assert!(t.0.len() == 2);
    assert!(t.0[0].raw_value() == e0, "axis 0: min/default/max map to exactly -1/0/+1, out-of-range values are clamped");
    assert!(t.0[1].raw_value() == e1, "axis 1 is normalised with axis 1's record and value 1");
}

//@ harness norm_wrong_len kind=bounded:2axes fns=FvarTable::normalize timeout=600
#[kani::proof]
#[kani::unwind(6)]
fn norm_wrong_len() {
    let axes: [(i32, i32, i32); 2] = [(100 << 16, 400 << 16, 900 << 16), (4096000, 100 << 16, 100 << 16)];
    let bytes = fvar_bytes(2, &axes);
    let fvar = ReadScope::new(&bytes[..]).read::<FvarTable<'_>>().unwrap();
    let v: [i32; 3] = kani::any();
    let user = [Fixed::from_raw(v[0]), Fixed::from_raw(v[1]), Fixed::from_raw(v[2])];
    assert!(fvar.normalize(user[..1].iter().copied(), None).err() == Some(ParseError::BadValue), "too short a tuple is rejected");
    assert!(fvar.normalize(user.iter().copied(), None).err() == Some(ParseError::BadValue), "too long a tuple is rejected");
    assert!(fvar.normalize(user[..0].iter().copied(), None).err() == Some(ParseError::BadValue));
}

//@ harness norm_avar kind=bounded:2axes fns=FvarTable::normalize,AvarTable::segment_maps,SegmentMap::normalize,AvarTable::read timeout=900
#[kani::proof]
#[kani::unwind(6)]
fn norm_avar() {
    let n: u16 = 2;
    // concrete axes (the arithmetic over all axes is Verus unit C13_dn): wght 100/400/900 and a wdth axis degenerate on its upper side
    let axes: [(i32, i32, i32); 2] = [(100 << 16, 400 << 16, 900 << 16), (4096000, 100 << 16, 100 << 16)];
    let bytes = fvar_bytes(n, &axes);
    let fvar = ReadScope::new(&bytes[..]).read::<FvarTable<'_>>().unwrap();
    let z: [i16; 2] = kani::any();
    kani::assume(z[0] >= -16384 && z[0] <= 16384 && z[1] >= -16384 && z[1] <= 16384);
    let m: u16 = kani::any(); // number of segment maps present in avar: a missing map is an error, not a panic
    kani::assume(m <= 2);
    let ab = avar_bytes(m, &z);
    let avar = ReadScope::new(&ab[..8 + 14 * m as usize]).read::<crate::tables::variable_fonts::avar::AvarTable<'_>>().unwrap();
    let w: [u8; 2] = kani::any();
    kani::assume(w[0] < 5 && w[1] < 5);
    let (u0, e0) = pick(&axes[0], w[0]);
    let (u1, e1) = pick(&axes[1], w[1]);
    let user = [Fixed::from_raw(u0), Fixed::from_raw(u1)];
    let through = |e: i16, z: i16| if e == 0 { z } else { e }; // knots: -1 -> -1, 0 -> z, 1 -> 1
    match fvar.normalize(user.iter().copied(), Some(&avar)) {
        Ok(t) => {
            assert!(m == 2);
            assert!(t.0[0].raw_value() == through(e0, z[0]), "axis 0 goes through segment map 0");
            assert!(t.0[1].raw_value() == through(e1, z[1]), "axis 1 goes through segment map 1");
        }
        Err(e) => assert!(m < 2 && e == ParseError::BadIndex, "missing segment map is BadIndex"),
    }
}

// The Verus contract of default_normalize carries the precondition max - min < 2^31 raw units (axis range below 32768.0).
// This harness states the property WITHOUT that precondition on one extreme but format-valid axis; it fails on the pinned tree
// (known finding C13-wide-axis: Fixed::sub wraps, and `-(default - coord)` overflows for coord = -32768.0).
//@ harness dn_wide_axis kind=complete fns=default_normalize
#[kani::proof]
fn dn_wide_axis() {
    let axis = VariationAxisRecord { axis_tag: 0, min_value: Fixed::from_raw(i32::MIN), default_value: Fixed::from_raw(0), max_value: Fixed::from_raw(i32::MAX), flags: 0, axis_name_id: 0 };
    let c: i32 = kani::any();
    let r = default_normalize(&axis, Fixed::from_raw(c)).raw_value();
    assert!(r >= -65536 && r <= 65536);
    assert!((c < 0) == (r < 0) || r == 0, "the sign of the normalised value follows the side of the default");
}
