//@ unit C10_sfnt
//@ props C10 C01
//@ module src/tables.rs
//@ strength bounded(<=2 table records in a 48-byte file; collections of <=2 member fonts); tags, offsets, lengths and the probe tag fully symbolic
//@ assume flate2 inflates correctly (WOFF compressed path is not verified); brotli (WOFF2) outside this unit

fn put32(b: &mut [u8], at: usize, v: u32) { b[at] = (v >> 24) as u8; b[at + 1] = (v >> 16) as u8; b[at + 2] = (v >> 8) as u8; b[at + 3] = v as u8; }

//@ harness sfnt_tables kind=bounded:2records fns=OpenTypeFont::read,OffsetTable::read,OffsetTable::find_table_record,OffsetTable::read_table,TableRecord::read_table,OffsetTableFontProvider::table_data,OffsetTableFontProvider::has_table,OpenTypeFont::table_provider timeout=600
#[kani::proof]
#[kani::unwind(6)]
fn sfnt_tables() {
    // bare sfnt: 12-byte header + 2 records (32 bytes) + 4 payload bytes
    let mut f: [u8; 48] = kani::any();
    put32(&mut f, 0, 0x00010000);
    f[4] = 0; f[5] = 2; // numTables
    let recs: [(u32, u32, u32); 2] = kani::any(); // (tag, offset, length)
    let mut i = 0;
    while i < 2 { put32(&mut f, 12 + 16 * i, recs[i].0); put32(&mut f, 20 + 16 * i, recs[i].1); put32(&mut f, 24 + 16 * i, recs[i].2); i += 1; }
    let font = ReadScope::new(&f).read::<OpenTypeFont<'_>>().unwrap();
    let provider = font.table_provider(0).unwrap();
    assert!(provider.sfnt_version() == 0x00010000, "the sfnt flavour is the stored one");
    let tag: u32 = kani::any();
    // the FIRST record carrying the tag decides (directory order)
    let hit = if recs[0].0 == tag { Some(0) } else if recs[1].0 == tag { Some(1) } else { None };
    assert!(provider.has_table(tag) == hit.is_some(), "has_table reports exactly the stored tags");
    match provider.table_data(tag) {
        Ok(Some(data)) => {
            let k = hit.unwrap();
            let (off, len) = (recs[k].1 as usize, recs[k].2 as usize);
            assert!(data.len() == len, "exactly `length` bytes");
            if len > 0 {
                assert!(off < 48 && len <= 48 - off, "the window lies inside the file");
                let j: usize = kani::any();
                kani::assume(j < len);
                assert!(data[j] == f[off + j], "byte for byte the stored table");
            }
        }
        Ok(None) => assert!(hit.is_none(), "absence only for an absent tag"),
        Err(_) => {
            let k = hit.unwrap();
            let (off, len) = (recs[k].1 as usize, recs[k].2 as usize);
            assert!(off >= 48 || len > 48 - off, "an error only when the recorded window leaves the file");
        }
    }
}

//@ harness ttc_member kind=bounded:2fonts fns=OpenTypeFont::read,TTCHeader::read,OpenTypeFont::offset_table,OpenTypeFont::table_provider timeout=600
#[kani::proof]
#[kani::unwind(5)]
fn ttc_member() {
    // collection header (12 bytes) + 2 offsets + version 2 signature fields (12 bytes: ulDsigTag, ulDsigLength, ulDsigOffset; all null
    // when the collection is unsigned) + two minimal offset tables (12 bytes each, zero tables) = 56 bytes; version 1 files simply
    // do not use the three signature words
    let mut f = [0u8; 56];
    put32(&mut f, 0, 0x74746366); // 'ttcf'
    let major: u8 = kani::any();
    kani::assume(major == 1 || major == 2);
    f[5] = major;
    put32(&mut f, 8, 2);
    let offs: [u32; 2] = kani::any();
    put32(&mut f, 12, offs[0]);
    put32(&mut f, 16, offs[1]);
    let signed: bool = kani::any();
    if major == 2 && signed { put32(&mut f, 20, 0x44534947); put32(&mut f, 24, kani::any()); put32(&mut f, 28, kani::any()); } // 'DSIG', length, offset
    put32(&mut f, 32, 0x00010000);
    put32(&mut f, 44, 0x4F54544F); // 'OTTO'
    let font = ReadScope::new(&f).read::<OpenTypeFont<'_>>().unwrap();
    let index: usize = kani::any();
    match font.offset_table(index) {
        Ok(t) => {
            assert!(index < 2, "a member index beyond the end of the collection is an error");
            let off = offs[index] as usize;
            assert!(off <= 56 - 12);
            let magic = ((f[off] as u32) << 24) | ((f[off + 1] as u32) << 16) | ((f[off + 2] as u32) << 8) | f[off + 3] as u32;
            assert!(t.sfnt_version == magic, "the offset table is the one stored at offsets[index]");
        }
        Err(e) => {
            if index >= 2 { assert!(e == ParseError::BadIndex); }
        }
    }
}
