//@ unit C05_adj
//@ props C05 C02
//@ module src/gpos.rs
//@ strength complete (loop-free, all i16 field values, no variation data) for Adjust::apply; bounded(2 glyphs, 2 kern sub-tables of one pair each, coverage flags and values symbolic) for apply_kern
//@ unverified device/variation deltas (ItemVariationStore::adjustment), gpos_apply_lookup (needs the HashMap-backed lookup cache), pair/mark iteration strategies, GlyphLayout position resolution (see C05_pos)
use tinyvec::tiny_vec;
use crate::gsub::{GlyphOrigin, RawGlyphFlags};
use crate::binary::read::ReadScope;

fn info(gid: u16, kerning: i16) -> Info {
    Info { glyph: RawGlyph { unicodes: tiny_vec![], glyph_index: gid, liga_component_pos: 0, glyph_origin: GlyphOrigin::Direct, flags: RawGlyphFlags::empty(), variation: None, extra_data: () }, kerning, placement: Placement::None, is_mark: false }
}

//@ harness adjust_apply kind=complete fns=Adjust::apply,Adjust::x_advance_delta,Adjust::delta,Placement::combine_distance
#[kani::proof]
fn adjust_apply() {
    let adj = Adjust { x_placement: kani::any(), y_placement: kani::any(), x_advance: kani::any(), y_advance: kani::any(), x_placement_variation: None, y_placement_variation: None, x_advance_variation: None, y_advance_variation: None };
    let k0: i16 = kani::any();
    let mut i = info(7, k0);
    adj.apply(None, None, &mut i);
    // a value record adds its XAdvance to the glyph's advance adjustment and its placement to the glyph's placement; never panics
    if adj.y_advance == 0 {
        let want = (k0 as i32 + adj.x_advance as i32).clamp(-32768, 32767);
        assert!(i.kerning as i32 == want, "advance adjustments accumulate (saturating at the i16 range)");
        if adj.x_placement != 0 || adj.y_placement != 0 {
            assert!(matches!(i.placement, Placement::Distance(x, y) if x == adj.x_placement as i32 && y == adj.y_placement as i32), "placement is carried");
        } else {
            assert!(matches!(i.placement, Placement::None));
        }
    } else {
        assert!(i.kerning == k0, "vertical advances are not applied to horizontal text");
    }
}

//@ harness combine_distance_total kind=complete fns=Placement::combine_distance
#[kani::proof]
fn combine_distance_total() {
    // a placement adjustment may meet ANY earlier placement of the glyph (an earlier lookup may have anchored it): never a panic;
    // plain distances add up, an anchored mark has the adjustment added to its base anchor, anything else is replaced by the distance
    let a1 = Anchor { x: kani::any(), y: kani::any() };
    let a2 = Anchor { x: kani::any(), y: kani::any() };
    let idx: usize = kani::any();
    let (x1, y1): (i32, i32) = (kani::any(), kani::any());
    // adjustments come from 16-bit value records (+ a rounded variation delta): far inside the i32 range
    let (x2, y2): (i32, i32) = (kani::any(), kani::any());
    kani::assume(x2 >= -0x20000 && x2 <= 0x20000 && y2 >= -0x20000 && y2 <= 0x20000);
    let which: u8 = kani::any();
    let mut p = match which {
        0 => Placement::None,
        1 => Placement::Distance(x1, y1),
        2 => Placement::MarkAnchor(idx, a1, a2),
        3 => Placement::MarkOverprint(idx),
        _ => Placement::CursiveAnchor(idx, kani::any(), a1, a2),
    };
    p.combine_distance(x2, y2);
    match which {
        1 => {
            let (sx, sy) = (x1 as i64 + x2 as i64, y1 as i64 + y2 as i64);
            let fits = sx >= i32::MIN as i64 && sx <= i32::MAX as i64 && sy >= i32::MIN as i64 && sy <= i32::MAX as i64;
            assert!(!fits || matches!(p, Placement::Distance(x, y) if x as i64 == sx && y as i64 == sy), "distances accumulate");
        }
        2 => {
            let (sx, sy) = (a1.x as i32 + x2, a1.y as i32 + y2);
            let fits = x2 >= -32768 && x2 <= 32767 && y2 >= -32768 && y2 <= 32767 && sx >= -32768 && sx <= 32767 && sy >= -32768 && sy <= 32767;
            assert!(matches!(p, Placement::MarkAnchor(i, _, b2) if i == idx && b2 == a2), "the mark stays anchored to the same base with the same mark anchor");
            assert!(!fits || matches!(p, Placement::MarkAnchor(_, b1, _) if b1.x as i32 == sx && b1.y as i32 == sy), "the adjustment moves the base anchor of an anchored mark");
        }
        _ => assert!(matches!(p, Placement::Distance(x, y) if x == x2 && y == y2)),
    }
}

fn put16(b: &mut [u8], at: usize, v: u16) { b[at] = (v >> 8) as u8; b[at + 1] = v as u8; }

//@ harness kern_accumulate kind=bounded:2subtables fns=apply_kern,KernTable::read,KernTable::sub_tables,KernSubtable::is_horizontal,KernSubtable::is_minimum,KernSubtable::is_cross_stream,KernSubtable::is_override,KernData::lookup timeout=900
#[kani::proof]
#[kani::unwind(6)]
fn kern_accumulate() {
    // kern version 0 with two format 0 sub-tables, each holding the single pair (1, 2); coverage flag bits and values symbolic
    let cov: [u8; 2] = kani::any();
    let val: [i16; 2] = kani::any();
    let mut b = [0u8; 44];
    put16(&mut b, 2, 2);
    let mut t = 0;
    while t < 2 {
        let at = 4 + 20 * t;
        put16(&mut b, at + 2, 20);
        put16(&mut b, at + 4, (cov[t] & 0x0F) as u16); // format 0 in the high byte, flags in the low byte
        put16(&mut b, at + 6, 1);
        put16(&mut b, at + 14, 1);
        put16(&mut b, at + 16, 2);
        put16(&mut b, at + 18, val[t] as u16);
        t += 1;
    }
    let kern = ReadScope::new(&b).read::<KernTable<'_>>().unwrap();
    let mut infos = [info(1, 0), info(2, 0)];
    apply_kern(kern, &mut infos).unwrap();
    // OpenType kern coverage bits: 0 horizontal, 1 minimum, 2 cross-stream, 3 override. Only horizontal, non cross-stream
    // sub-tables contribute to the advance: override replaces the accumulated value, minimum limits it, otherwise values add up
    let mut want: i32 = 0;
    let mut t = 0;
    while t < 2 {
        let c = cov[t];
        if c & 1 != 0 && c & 4 == 0 {
            if c & 8 != 0 { want = val[t] as i32; } else if c & 2 != 0 { want = want.min(val[t] as i32); } else { want = (want + val[t] as i32).clamp(-32768, 32767); }
        }
        t += 1;
    }
    assert!(infos[0].kerning as i32 == want, "the left glyph of the pair carries the kerning");
    assert!(infos[1].kerning == 0, "the last glyph has no pair to its right");
}
