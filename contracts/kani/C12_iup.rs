//@ unit C12_iup
//@ props C12
//@ module src/tables/glyf/variation.rs
//@ strength complete for the branch selection of inferred deltas (all 5 x i16); bounded(values in -8..8; full ranges do not finish under CBMC: float division) for the numeric claim of the interpolation branch
//@ unverified infer_contour / infer_unreferenced_points (neighbour selection over &BTreeMap::range: out of reach for both verifiers, measured), application loops over glyph points, composite offsets

//@ harness iup_branches kind=complete fns=do_infer
#[kani::proof]
fn iup_branches() {
    // OpenType gvar "Inferred deltas for un-referenced point numbers", per coordinate
    let (pc, tc, nc, pd, nd): (i16, i16, i16, i16, i16) = (kani::any(), kani::any(), kani::any(), kani::any(), kani::any());
    let r = do_infer(pc, tc, nc, pd, nd);
    if pc == nc {
        // "if the adjacent points have the same coordinate: same deltas -> that delta, different deltas -> zero"
        assert!(r == if pd == nd { pd as f32 } else { 0.0 });
    } else {
        let (lo_c, lo_d, hi_c, hi_d) = if pc < nc { (pc, pd, nc, nd) } else { (nc, nd, pc, pd) };
        if tc <= lo_c {
            assert!(r == lo_d as f32, "target at or below the smaller neighbour takes that neighbour's delta");
        } else if tc >= hi_c {
            assert!(r == hi_d as f32, "target at or above the larger neighbour takes that neighbour's delta");
        } else {
            assert!(!r.is_nan(), "interpolation never divides by zero");
        }
    }
}

//@ harness iup_interpolation kind=bounded:values_in_-8..8 fns=do_infer timeout=900
#[kani::proof]
fn iup_interpolation() {
    // strictly between the neighbours: linear interpolation d1 + (t - c1)(d2 - d1)/(c2 - c1), to within 1/64 of a unit, and between the two deltas
    let (pc, tc, nc, pd, nd): (i8, i8, i8, i8, i8) = (kani::any(), kani::any(), kani::any(), kani::any(), kani::any());
    kani::assume(pc != nc && tc > pc.min(nc) && tc < pc.max(nc));
    kani::assume(pc >= -8 && pc <= 8 && nc >= -8 && nc <= 8 && pd >= -8 && pd <= 8 && nd >= -8 && nd <= 8);
    let r = do_infer(pc as i16, tc as i16, nc as i16, pd as i16, nd as i16);
    let (lo, hi) = (pd.min(nd) as f32, pd.max(nd) as f32);
    assert!(r >= lo - 0.015625 && r <= hi + 0.015625, "interpolated delta lies between the neighbours' deltas");
    // r * (c2 - c1) == d1 * (c2 - c1) + (t - c1)(d2 - d1) up to rounding
    let den = nc as i32 - pc as i32;
    let exact_num = pd as i32 * den + (tc as i32 - pc as i32) * (nd as i32 - pd as i32);
    let diff = r * den as f32 - exact_num as f32;
    assert!(diff < 0.5 && diff > -0.5);
}
