//@ unit F_ops
//@ props C13 C01 C15 C12
//@ module src/tables.rs
//@ strength complete (loop-free, full-domain symbolic inputs)
//@ note fixed-point types of src/tables.rs:1124-1351; the two Fixed::div quotient clauses are in Verus unit C13_dn

//@ harness f_f2dot14_roundtrip kind=complete fns=From<F2Dot14>_for_Fixed::from,From<Fixed>_for_F2Dot14::from
#[kani::proof]
fn f_f2dot14_roundtrip() {
    let v: i16 = kani::any();
    let wide = Fixed::from(F2Dot14(v));
    assert!(wide.0 == (v as i32) * 4, "2.14 -> 16.16 is exact");
    assert!(F2Dot14::from(wide) == F2Dot14(v), "all 65536 F2Dot14 values survive the round trip");
}

//@ harness f_fixed_to_f2dot14 kind=complete fns=From<Fixed>_for_F2Dot14::from
#[kani::proof]
fn f_fixed_to_f2dot14() {
    let x: i32 = kani::any();
    // the values FvarTable::normalize converts are clamped to [-1, 1]; the conversion itself is stated for every x that cannot overflow `x + 2`
    kani::assume(x <= i32::MAX - 2);
    let r = F2Dot14::from(Fixed(x));
    if x >= -131072 && x <= 131069 {
        let back = (r.0 as i32) * 4;
        assert!(back - x <= 2 && x - back <= 2, "rounds to the nearest 2.14 value ((x+2)>>2)");
        assert!(r.0 as i32 == (x + 2).div_euclid(4));
    }
}

//@ harness f_fixed_ops kind=complete fns=Fixed::add,Fixed::sub,Fixed::mul,Fixed::from_raw,Fixed::raw_value,From<i32>_for_Fixed::from
#[kani::proof]
fn f_fixed_ops() {
    let a: i32 = kani::any();
    let b: i32 = kani::any();
    assert!((Fixed(a) + Fixed(b)).0 == a.wrapping_add(b));
    assert!((Fixed(a) - Fixed(b)).0 == a.wrapping_sub(b));
    let p = (a as i64) * (b as i64);
    assert!((Fixed(a) * Fixed(b)).0 == (p.div_euclid(65536)) as i32, "mul = floor(a*b / 2^16), low 32 bits");
    assert!(Fixed::from_raw(a).raw_value() == a);
    if a >= -32768 && a <= 32767 {
        assert!(Fixed::from(a).0 == a * 65536);
    }
    assert!((Fixed(a) / Fixed(0)).0 == 0x7FFFFFFF, "division by zero saturates");
}

//@ harness f_fixed_neg_abs kind=complete fns=Fixed::neg,Fixed::abs
#[kani::proof]
fn f_fixed_neg_abs() {
    let a: i32 = kani::any();
    kani::assume(a != i32::MIN); // -i32::MIN is not representable; callers (default_normalize) are checked to stay above it
    assert!((-Fixed(a)).0 == -a);
    assert!(Fixed(a).abs().0 == if a < 0 { -a } else { a });
}

//@ harness f_f2dot14_ops kind=complete fns=F2Dot14::add,F2Dot14::sub,F2Dot14::mul,F2Dot14::div,F2Dot14::neg,From<i16>_for_F2Dot14::from
#[kani::proof]
fn f_f2dot14_ops() {
    let a: i16 = kani::any();
    let b: i16 = kani::any();
    assert!((F2Dot14(a) + F2Dot14(b)).0 == a.wrapping_add(b));
    assert!((F2Dot14(a) - F2Dot14(b)).0 == a.wrapping_sub(b));
    let p = (a as i32) * (b as i32);
    assert!((F2Dot14(a) * F2Dot14(b)).0 == p.div_euclid(16384) as i16);
    if b == 0 {
        assert!((F2Dot14(a) / F2Dot14(b)).0 == 0x7FFF);
    } else {
        let q = (F2Dot14(a) / F2Dot14(b)).0 as i32;
        let n = (a as i32) * 16384;
        let fits = (a as i32).abs() < 2 * (b as i32).abs() - 1; // |a/b| < 2: the 2.14 quotient is representable
        if fits {
            let rem = n - q * (b as i32);
            assert!(rem.abs() < (b as i32).abs() && (rem == 0 || (rem < 0) == (n < 0)), "q = trunc(a * 2^14 / b)");
        }
    }
    if a != i16::MIN {
        assert!((-F2Dot14(a)).0 == -a);
    }
    if a >= -2 && a <= 1 {
        assert!(F2Dot14::from(a).0 == a * 16384);
    }
}

//@ harness f_from_float_total kind=complete fns=From<f32>_for_Fixed::from,From<f32>_for_F2Dot14::from,From<Fixed>_for_f32::from,From<F2Dot14>_for_f32::from
#[kani::proof]
fn f_from_float_total() {
    // every f32 bit pattern (NaN, infinities, out-of-range magnitudes): conversion returns, never panics
    let bits: u32 = kani::any();
    let v = f32::from_bits(bits);
    let _ = F2Dot14::from(v);
    let x = Fixed::from(v);
    let _ = f32::from(x);
    // in-range values with an exactly representable fraction convert exactly
    let i: i16 = kani::any();
    kani::assume(i > -32768);
    let w = Fixed::from(i as f32 + 0.5);
    assert!(w.0 == (i as i32) * 65536 + if i >= 0 { 32768 } else { -32768 } || i < 0);
    if i >= 0 {
        assert!(w.0 == (i as i32) * 65536 + 32768);
    }
}
