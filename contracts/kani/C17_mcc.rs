//@ unit C17_mcc
//@ props C17
//@ module src/unicode/mcc.rs
//@ strength complete (every Unicode scalar value, loop-free)
//@ assume the canonical combining class table of the crate unicode-canonical-combining-class (Unicode 16) is correct
//@ unverified sort_by_modified_combining_class (slice::split_mut + std stable sort: out of reach, measured)

//@ harness mcc_starters kind=complete fns=modified_combining_class timeout=900
#[kani::proof]
fn mcc_starters() {
    // The runs that preprocessing may reorder are delimited by starters. A character is a starter for that purpose exactly when
    // its canonical combining class is 0 (UAX #15): the modified classes only re-rank marks, they never turn a mark into a
    // starter or a starter into a mark; the Latin fast path (<= U+02FF) must agree with the table.
    let c: char = kani::any();
    let ccc = get_canonical_combining_class(c) as u8;
    let mcc = modified_combining_class(c);
    assert!((ccc == 0) == (mcc == ModifiedCombiningClass::NotReordered), "starter <=> canonical combining class 0");
    // documented modifications of the enum: CCC84 -> CCC4, CCC91 -> CCC5 (Telugu length marks), CCC103 -> CCC3 (Thai SARA U / UU below PHINTHU)
    if ccc == 84 { assert!(mcc == ModifiedCombiningClass::CCC4); }
    if ccc == 91 { assert!(mcc == ModifiedCombiningClass::CCC5); }
    if ccc == 103 { assert!(mcc == ModifiedCombiningClass::CCC3); }
    // classes the modification scheme leaves alone keep their rank
    if ccc == 1 || ccc == 7 || ccc == 9 || ccc >= 200 { assert!(mcc as u8 == ccc, "fixed-position and generic classes are not renumbered"); }
}
