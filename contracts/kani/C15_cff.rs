//@ unit C15_cff
//@ props C15
//@ module src/cff.rs
//@ strength complete (loop-free; all i32 operands, every operator code)
//@ unverified Real/BCD operands, DICT and INDEX round trips (thorough-tier candidates), charsets, FDSelect, CFF2
use crate::binary::write::{WriteBinary, WriteBuffer, WriteContext};

fn int_operand_case(v: i32) {
    let mut w = WriteBuffer::new();
    Operand::write(&mut w, &Operand::Integer(v)).unwrap();
    let n = w.bytes().len();
    // Technical Note #5176 Table 3: shortest form
    let want = if v >= -107 && v <= 107 { 1 } else if (v >= 108 && v <= 1131) || (v >= -1131 && v <= -108) { 2 } else if v >= -32768 && v <= 32767 { 3 } else { 5 };
    assert!(n == want, "operand uses the shortest encoding of its range");
    let mut ctxt = ReadScope::new(w.bytes()).ctxt();
    match ctxt.read::<Op>() {
        Ok(Op::Operand(Operand::Integer(x))) => assert!(x == v, "integer operand: read(write(v)) == v"),
        _ => panic!("integer operand does not read back as an integer"),
    }
    assert!(!ctxt.bytes_available(), "all bytes consumed");
}

// the i32 domain is split into the five encoding classes (one harness each; together they cover every i32)
//@ harness cff_int_1byte kind=complete fns=Operand::write,Op::read
#[kani::proof]
#[kani::unwind(8)]
fn cff_int_1byte() { let v: i32 = kani::any(); kani::assume(v >= -107 && v <= 107); int_operand_case(v) }
//@ harness cff_int_2byte_pos kind=complete fns=Operand::write,Op::read
#[kani::proof]
#[kani::unwind(8)]
fn cff_int_2byte_pos() { let v: i32 = kani::any(); kani::assume(v >= 108 && v <= 1131); int_operand_case(v) }
//@ harness cff_int_2byte_neg kind=complete fns=Operand::write,Op::read
#[kani::proof]
#[kani::unwind(8)]
fn cff_int_2byte_neg() { let v: i32 = kani::any(); kani::assume(v >= -1131 && v <= -108); int_operand_case(v) }
//@ harness cff_int_3byte kind=complete fns=Operand::write,Op::read
#[kani::proof]
#[kani::unwind(8)]
fn cff_int_3byte() { let v: i32 = kani::any(); kani::assume((v > 1131 && v <= 32767) || (v < -1131 && v >= -32768)); int_operand_case(v) }
//@ harness cff_int_5byte kind=complete fns=Operand::write,Op::read
#[kani::proof]
#[kani::unwind(8)]
fn cff_int_5byte() { let v: i32 = kani::any(); kani::assume(v > 32767 || v < -32768); int_operand_case(v) }

//@ harness cff_offset_operand kind=complete fns=Operand::write,Op::read
#[kani::proof]
fn cff_offset_operand() {
    let v: i32 = kani::any();
    let mut w = WriteBuffer::new();
    Operand::write(&mut w, &Operand::Offset(v)).unwrap();
    assert!(w.bytes().len() == 5, "offsets always use the 5-byte form so that their size is predictable");
    match ReadScope::new(w.bytes()).read::<Op>() {
        Ok(Op::Operand(Operand::Integer(x))) => assert!(x == v, "offset operand reads back as the same number"),
        _ => panic!("offset operand does not read back"),
    }
}

//@ harness cff_operator kind=complete fns=Operator::write,Op::read
#[kani::proof]
fn cff_operator() {
    // every one/two-byte operator code that parses writes back to the same bytes
    let b: [u8; 2] = kani::any();
    let mut ctxt = ReadScope::new(&b).ctxt();
    if let Ok(Op::Operator(op)) = ctxt.read::<Op>() {
        let mut w = WriteBuffer::new();
        Operator::write(&mut w, op).unwrap();
        if b[0] == 12 {
            assert!(w.bytes().len() == 2 && w.bytes()[0] == 12 && w.bytes()[1] == b[1]);
        } else {
            assert!(w.bytes().len() == 1 && w.bytes()[0] == b[0]);
        }
    }
}
