//@ unit C18_leaf
//@ props C18 C01
//@ module src/cff/charstring.rs
//@ strength complete (loop-free, full domain) for the subroutine bias / index conversion; bounded(stack capacity 4) for ArgumentsStack
//@ unverified interpreter dispatch loop (visit_impl), stem counting / hint mask length, subroutine call nesting, seac (depth + 1 passed without the STACK_LIMIT guard: known from reading), FDSelect dispatch

//@ harness subr_bias kind=complete fns=calc_subroutine_bias,conv_subroutine_index_impl
#[kani::proof]
fn subr_bias() {
    // Adobe TN#5176 ch.16 / TN#5177 4.7: bias = 107 if nSubrs < 1240, 1131 if nSubrs < 33900, else 32768
    let n: usize = kani::any();
    let want = if n < 1240 { 107 } else if n < 33900 { 1131 } else { 32768 };
    assert!(calc_subroutine_bias(n) == want);
    // unbiased index = operand + bias; negative results are invalid, never wrapped
    let operand: i32 = kani::any();
    let bias: u16 = kani::any();
    let sum = operand as i64 + bias as i64;
    match conv_subroutine_index_impl(operand, bias) {
        Some(i) => assert!(sum >= 0 && sum <= i32::MAX as i64 && i as i64 == sum),
        None => assert!(sum < 0 || sum > i32::MAX as i64),
    }
}

//@ harness argstack kind=bounded:4slots fns=ArgumentsStack::push,ArgumentsStack::pop,ArgumentsStack::pop_n,ArgumentsStack::pop_all,ArgumentsStack::all,ArgumentsStack::clear,ArgumentsStack::reverse,ArgumentsStack::at
#[kani::proof]
#[kani::unwind(6)]
fn argstack() {
    let mut data = [0i32; 4];
    let mut st = ArgumentsStack { data: &mut data, len: 0, max_len: 4 };
    let v: [i32; 5] = kani::any();
    let n: usize = kani::any();
    kani::assume(n <= 5);
    let mut i = 0;
    while i < n {
        let r = st.push(v[i]);
        assert!(r.is_ok() == (i < 4), "push succeeds up to the capacity and then reports the limit, never writes out of bounds");
        i += 1;
    }
    let held = if n < 4 { n } else { 4 };
    assert!(st.len() == held && st.is_empty() == (held == 0));
    let k: usize = kani::any();
    kani::assume(k < held);
    assert!(st.at(k) == v[k] && st.all()[k] == v[k], "operands are kept in push order");
    st.reverse();
    assert!(st.at(k) == v[held - 1 - k], "reverse flips exactly the held operands");
    st.reverse();
    if held > 0 {
        assert!(st.pop() == v[held - 1] && st.len() == held - 1, "pop returns the most recent operand");
    }
    st.clear();
    assert!(st.len() == 0 && st.pop_all().len() == 0);
}

//@ harness number_encodings kind=complete fns=parse_int1,parse_int2,parse_int3
#[kani::proof]
fn number_encodings() {
    // Type 2 charstring number encoding (TN#5177 Table 3): 32..246 -> b0-139; 247..250 -> (b0-247)*256+b1+108; 251..254 -> -(b0-251)*256-b1-108
    let op: u8 = kani::any();
    let b1: u8 = kani::any();
    let buf = [b1];
    let mut ctxt = ReadScope::new(&buf).ctxt();
    if op >= 32 && op <= 246 {
        let v: f32 = parse_int1(op).unwrap();
        assert!(v == (op as i32 - 139) as f32 && v >= -107.0 && v <= 107.0);
    } else if op >= 247 && op <= 250 {
        let v: f32 = parse_int2(op, &mut ctxt).unwrap();
        assert!(v == ((op as i32 - 247) * 256 + b1 as i32 + 108) as f32 && v >= 108.0 && v <= 1131.0);
        assert!(!ctxt.bytes_available(), "consumes exactly one more byte");
    } else if op >= 251 && op <= 254 {
        let v: f32 = parse_int3(op, &mut ctxt).unwrap();
        assert!(v == (-(op as i32 - 251) * 256 - b1 as i32 - 108) as f32 && v <= -108.0 && v >= -1131.0);
    }
}
