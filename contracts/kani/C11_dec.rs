//@ unit C11_dec
//@ props C11 C01
//@ module src/woff2.rs
//@ strength complete for the loop-free decoders (all 128 triplet flags x all data bytes; all byte strings <= 5 for the variable-length integers; all u16 glyph counts); bounded where stated
//@ assume brotli decompression (external crate) and Woff2TableProvider plumbing are outside the contracts

// ---- coordinate triplets: closed form of WOFF2 section 5.2 (as in the W3C reference decoder), independent of the 128-row table
fn with_sign(flag: u32, base: i32) -> i32 { if flag & 1 != 0 { base } else { -base } }
fn spec_triplet(flag: u8, b: &[u8; 4]) -> (usize, i32, i32) {
    let f = (flag & 0x7F) as u32;
    let (b0v, b1v, b2v, b3v) = (b[0] as i32, b[1] as i32, b[2] as i32, b[3] as i32);
    if f < 10 {
        (1, 0, with_sign(f, (((f & 14) << 7) as i32) + b0v))
    } else if f < 20 {
        (1, with_sign(f, ((((f - 10) & 14) << 7) as i32) + b0v), 0)
    } else if f < 84 {
        let b0 = (f - 20) as i32;
        (1, with_sign(f, 1 + (b0 & 0x30) + (b0v >> 4)), with_sign(f >> 1, 1 + ((b0 & 0x0c) << 2) + (b0v & 0x0f)))
    } else if f < 120 {
        let b0 = (f - 84) as i32;
        (2, with_sign(f, 1 + ((b0 / 12) << 8) + b0v), with_sign(f >> 1, 1 + (((b0 % 12) >> 2) << 8) + b1v))
    } else if f < 124 {
        (3, with_sign(f, (b0v << 4) + (b1v >> 4)), with_sign(f >> 1, ((b1v & 0x0f) << 8) + b2v))
    } else {
        (4, with_sign(f, (b0v << 8) + b1v), with_sign(f >> 1, (b2v << 8) + b3v))
    }
}

//@ harness triplet_decode kind=complete fns=WoffFlag::xy_triplet,WoffFlag::bytes_to_read,WoffFlag::is_on_curve_point,Woff2GlyfTable::decode_coordinates,XYTriplet::dx,XYTriplet::dy
#[kani::proof]
#[kani::unwind(6)]
fn triplet_decode() {
    let flag: u8 = kani::any();
    let b: [u8; 4] = kani::any();
    let wf = WoffFlag::new(flag);
    let (n, dx, dy) = spec_triplet(flag, &b);
    assert!(wf.bytes_to_read() == n, "number of coordinate bytes per WOFF2 5.2");
    assert!(wf.is_on_curve_point() == (flag & 0x80 == 0), "bit 7 clear means on-curve");
    let arr = ReadScope::new(&b[..n]).ctxt().read_array::<U8>(n).unwrap();
    let Point(x, y) = Woff2GlyfTable::decode_coordinates(wf, arr);
    // deltas are 16-bit two's complement quantities: a 16-bit magnitude is taken modulo 2^16
    assert!(x == dx as i16 && y == dy as i16, "dx/dy follow the triplet encoding");
}

fn consumed(ctxt: &ReadCtxt<'_>, total: usize) -> usize { total - ctxt.scope().data().len() }

// ---- 255UInt16 and UIntBase128 --------------------------------------------------------------
//@ harness packed_u16 kind=complete fns=PackedU16::read
#[kani::proof]
fn packed_u16() {
    let b: [u8; 3] = kani::any();
    let len: usize = kani::any();
    kani::assume(len <= 3);
    let mut ctxt = ReadScope::new(&b[..len]).ctxt();
    let r = ctxt.read::<PackedU16>();
    // WOFF2 "255UInt16": 253 -> next two bytes; 254 -> next byte + 506; 255 -> next byte + 253; else the byte itself
    let (need, val): (usize, u32) = if len == 0 { (1, 0) } else {
        match b[0] {
            253 => (3, ((b[1] as u32) << 8) + b[2] as u32),
            254 => (2, b[1] as u32 + 506),
            255 => (2, b[1] as u32 + 253),
            c => (1, c as u32),
        }
    };
    if len >= need {
        assert!(r == Ok(val as u16) && consumed(&ctxt, len) == need, "value and bytes consumed");
    } else {
        assert!(r.is_err());
    }
}

fn enc128(v: u32, out: &mut [u8; 5]) -> usize {
    // canonical UIntBase128 encoding (shortest form)
    let mut n = 1;
    let mut t = v >> 7;
    while t != 0 { n += 1; t >>= 7; }
    let mut i = 0;
    while i < n {
        let shift = 7 * (n - 1 - i);
        let mut byte = ((v >> shift) & 0x7F) as u8;
        if i + 1 < n { byte |= 0x80; }
        out[i] = byte;
        i += 1;
    }
    n
}

//@ harness base128_roundtrip kind=complete fns=U32Base128::read
#[kani::proof]
#[kani::unwind(7)]
fn base128_roundtrip() {
    // decode(encode(v)) == v for every u32, consuming exactly the encoded length
    let v: u32 = kani::any();
    let mut buf = [0u8; 5];
    let n = enc128(v, &mut buf);
    let mut ctxt = ReadScope::new(&buf[..n]).ctxt();
    assert!(ctxt.read::<U32Base128>() == Ok(v));
    assert!(consumed(&ctxt, n) == n);
}

//@ harness base128_rejects kind=complete fns=U32Base128::read
#[kani::proof]
#[kani::unwind(7)]
fn base128_rejects() {
    // every byte string: Ok(v) only for a well-formed encoding whose value is v; leading 0x80, > 5 bytes and overflow are rejected
    let b: [u8; 6] = kani::any();
    let len: usize = kani::any();
    kani::assume(len <= 6);
    let mut ctxt = ReadScope::new(&b[..len]).ctxt();
    match ctxt.read::<U32Base128>() {
        Ok(v) => {
            let n = consumed(&ctxt, len);
            assert!(n >= 1 && n <= 5 && n <= len);
            assert!(b[0] != 0x80, "no leading zeros");
            assert!(b[n - 1] & 0x80 == 0, "last byte has the continuation bit clear");
            let mut acc: u64 = 0;
            let mut i = 0;
            while i < n {
                if i + 1 < n { assert!(b[i] & 0x80 != 0); }
                acc = (acc << 7) | (b[i] & 0x7F) as u64;
                i += 1;
            }
            assert!(acc <= u32::MAX as u64 && acc as u32 == v, "value = big-endian base-128 digits, must fit 32 bits");
        }
        Err(_) => {}
    }
}

// ---- table directory entry (WOFF2 section 4.1) -----------------------------------------------
// known-tag table exactly as printed in the WOFF2 specification ("Known Table Tags", flag values 0..62)
const SPEC_KNOWN_TAGS: [&[u8; 4]; 63] = [
    b"cmap", b"head", b"hhea", b"hmtx", b"maxp", b"name", b"OS/2", b"post", b"cvt ", b"fpgm", b"glyf", b"loca", b"prep", b"CFF ", b"VORG", b"EBDT",
    b"EBLC", b"gasp", b"hdmx", b"kern", b"LTSH", b"PCLT", b"VDMX", b"vhea", b"vmtx", b"BASE", b"GDEF", b"GPOS", b"GSUB", b"EBSC", b"JSTF", b"MATH",
    b"CBDT", b"CBLC", b"COLR", b"CPAL", b"SVG ", b"sbix", b"acnt", b"avar", b"bdat", b"bloc", b"bsln", b"cvar", b"fdsc", b"feat", b"fmtx", b"fvar",
    b"gvar", b"hsty", b"just", b"lcar", b"mort", b"morx", b"opbd", b"prop", b"trak", b"Zapf", b"Silf", b"Glat", b"Gloc", b"Feat", b"Sill",
];
fn tag_of(t: &[u8; 4]) -> u32 { ((t[0] as u32) << 24) | ((t[1] as u32) << 16) | ((t[2] as u32) << 8) | t[3] as u32 }

//@ harness directory_entry kind=complete fns=TableDirectoryEntry::read_dep,U32Base128::read,TableDirectoryEntry::length timeout=900
#[kani::proof]
#[kani::unwind(7)]
fn directory_entry() {
    // every flag byte, every explicit tag, every pair of UIntBase128 values (canonical encodings of all u32):
    //   tag = known tag (flags & 0x3F) < 63, else the 4 bytes that follow; origLength next;
    //   transformLength is present iff the table is transformed: glyf/loca with version != 3, any other table with version != 0
    let flags: u8 = kani::any();
    let explicit: [u8; 4] = kani::any();
    let orig: u32 = kani::any();
    let tlen: u32 = kani::any();
    let offset: usize = kani::any();
    let mut buf = [0u8; 16];
    let mut n = 0;
    buf[n] = flags; n += 1;
    let idx = (flags & 0x3F) as usize;
    let want_tag = if idx == 63 { buf[n..n + 4].copy_from_slice(&explicit); n += 4; tag_of(&explicit) } else { tag_of(SPEC_KNOWN_TAGS[idx]) };
    let mut e = [0u8; 5];
    let k = enc128(orig, &mut e);
    let mut i = 0; while i < k { buf[n + i] = e[i]; i += 1; } n += k;
    let k2 = enc128(tlen, &mut e);
    let mut i = 0; while i < k2 { buf[n + i] = e[i]; i += 1; }
    let with_tlen = n + k2;
    let version = flags >> 6;
    let is_glyf_loca = want_tag == tag_of(b"glyf") || want_tag == tag_of(b"loca");
    let transformed = if is_glyf_loca { version != 3 } else { version != 0 };
    let mut ctxt = ReadScope::new(&buf[..with_tlen]).ctxt();
    let r = ctxt.read_dep::<TableDirectoryEntry>(offset);
    match r {
        Ok(entry) => {
            assert!(entry.tag == want_tag, "tag: known-table index or the explicit 4 bytes");
            assert!(entry.offset == offset);
            assert!(entry.orig_length == orig, "origLength");
            assert!(entry.transform_length == if transformed { Some(tlen) } else { None }, "transformLength present iff the table is transformed");
            assert!(consumed(&ctxt, with_tlen) == if transformed { with_tlen } else { n }, "bytes consumed");
            assert!(entry.length() == if transformed { tlen as usize } else { orig as usize }, "stored length = transformLength when present");
        }
        Err(_) => assert!(false, "a well-formed entry is never refused"),
    }
}

// ---- transformed hmtx (WOFF2 section 5.4) ----------------------------------------------------
fn hmtx_case(flags: u8) {
    // 2 glyphs (both empty: xMin counts as 0), numberOfHMetrics = 1. Flags bit 0: lsb[] is absent (take xMin), bit 1: leftSideBearing[] is absent.
    let adv: u16 = kani::any();
    let v1: i16 = kani::any();
    let v2: i16 = kani::any();
    let mut b = [0u8; 7];
    b[0] = flags;
    b[1] = (adv >> 8) as u8; b[2] = adv as u8;
    b[3] = (v1 as u16 >> 8) as u8; b[4] = v1 as u8;
    b[5] = (v2 as u16 >> 8) as u8; b[6] = v2 as u8;
    let present = (if flags & 1 == 0 { 1 } else { 0 }) + (if flags & 2 == 0 { 1 } else { 0 });
    let n = 3 + 2 * present;
    let glyf = GlyfTable::new(vec![GlyfRecord::Parsed(Glyph::Empty(crate::tables::glyf::EmptyGlyph { phantom_points: None })),
                                   GlyfRecord::Parsed(Glyph::Empty(crate::tables::glyf::EmptyGlyph { phantom_points: None }))]).unwrap();
    let entry = TableDirectoryEntry { tag: tag::HMTX, offset: 0, orig_length: 6, transform_length: Some(n as u32) };
    let mut ctxt = ReadScope::new(&b[..n]).ctxt();
    let r = ctxt.read_dep::<Woff2HmtxTable>((&entry, &glyf, 2, 1));
    match r {
        Ok(hmtx) => {
            assert!(hmtx.h_metrics.len() == 1);
            let m = hmtx.h_metrics.get_item(0).unwrap();
            assert!(m.advance_width == adv, "advanceWidth stream");
            if flags & 1 == 0 {
                assert!(m.lsb == v1, "lsb[] present: taken from the stream");
            } else {
                assert!(m.lsb == 0, "lsb[] absent: reconstructed from the glyph's xMin (0 for an empty glyph)");
            }
            if flags & 2 == 0 {
                let want = if flags & 1 == 0 { v2 } else { v1 };
                assert!(hmtx.left_side_bearings.len() == 1 && hmtx.left_side_bearings.get_item(0) == Some(want), "leftSideBearing[] present: the next stream values");
            }
            assert!(consumed(&ctxt, n) == n, "the whole transformed table is consumed");
        }
        Err(_) => assert!(false, "a well-formed transformed hmtx table is decoded"),
    }
}

//@ harness hmtx_flags_0 kind=bounded:2glyphs_1hmetric_both_streams fns=Woff2HmtxTable::read_dep,HmtxTableFlag::lsb_is_present,HmtxTableFlag::left_side_bearing_is_present timeout=900
#[kani::proof]
#[kani::unwind(6)]
fn hmtx_flags_0() { hmtx_case(0); }

//@ harness hmtx_flags_1 kind=bounded:2glyphs_1hmetric_lsb_from_xmin fns=Woff2HmtxTable::read_dep,HmtxTableFlag::lsb_is_present,HmtxTableFlag::left_side_bearing_is_present timeout=900
#[kani::proof]
#[kani::unwind(6)]
fn hmtx_flags_1() { hmtx_case(1); }

//@ harness hmtx_flags_2 kind=bounded:2glyphs_1hmetric_left_side_bearing_from_xmin fns=Woff2HmtxTable::read_dep,HmtxTableFlag::lsb_is_present,HmtxTableFlag::left_side_bearing_is_present timeout=900
#[kani::proof]
#[kani::unwind(6)]
fn hmtx_flags_2() { hmtx_case(2); }

// ---- bbox bitmap ---------------------------------------------------------------------------
//@ harness bitslice_get kind=bounded:4bytes fns=BitSlice::get,BitSlice::len
#[kani::proof]
fn bitslice_get() {
    let d: [u8; 4] = kani::any();
    let len: usize = kani::any();
    kani::assume(len <= 4);
    let bs = BitSlice::new(&d[..len]);
    let i: usize = kani::any();
    match bs.get(i) {
        Some(bit) => { assert!(i < 8 * len); assert!(bit == ((d[i / 8] >> (7 - (i % 8))) & 1 == 1), "glyph 0 is the most significant bit of byte 0"); }
        None => assert!(i >= 8 * len),
    }
}

//@ harness transformed_glyf_header kind=complete fns=TransformedGlyphTable::read
#[kani::proof]
fn transformed_glyf_header() {
    // any 36-byte header followed by up to 12 bytes of stream data: never a panic; when accepted, the bbox bitmap has
    // 4 * floor((numGlyphs + 31) / 32) bytes and the bbox stream the rest of bboxStreamSize
    let b: [u8; 48] = kani::any();
    let len: usize = kani::any();
    kani::assume(len <= 48);
    if let Ok(t) = ReadScope::new(&b[..len]).read::<TransformedGlyphTable<'_>>() {
        let n = ((b[4] as usize) << 8) + b[5] as usize;
        assert!(t.num_glyphs as usize == n);
        assert!(t.bbox_bitmap_scope.data().len() == 4 * ((n + 31) / 32));
    }
}

// ---- transformed glyf: contours and points ----------------------------------------------------
//@ harness end_pts kind=bounded:3contours fns=Woff2GlyfTable::compute_end_pts_of_contours
#[kani::proof]
#[kani::unwind(5)]
fn end_pts() {
    // n_points stream of one-byte 255UInt16 values (< 253): endPtsOfContours = cumulative sums - 1, total = nPoints
    let b: [u8; 3] = kani::any();
    kani::assume(b[0] < 253 && b[1] < 253 && b[2] < 253);
    let n: i16 = kani::any();
    kani::assume(n >= 0 && n <= 3);
    let mut ctxt = ReadScope::new(&b).ctxt();
    match Woff2GlyfTable::compute_end_pts_of_contours(&mut ctxt, n) {
        Ok((ends, total)) => {
            assert!(ends.len() == n as usize);
            let mut sum = 0u16;
            let mut i = 0;
            while i < n as usize {
                sum += b[i] as u16;
                assert!(sum >= 1 && ends[i] == sum - 1, "end point = cumulative point count - 1");
                i += 1;
            }
            assert!(total == sum, "nPoints is the sum of the contour sizes");
        }
        Err(_) => assert!(n >= 1 && b[0] == 0, "only an empty first contour is refused"),
    }
}

//@ harness simple_glyph kind=bounded:2points fns=Woff2GlyfTable::decode_simple_glyph,Woff2GlyfTable::decode_coordinates timeout=600
#[kani::proof]
#[kani::unwind(6)]
fn simple_glyph() {
    // one contour of two points, any triplet flags, any coordinate bytes: points = running sum of the triplet deltas, flags carried
    let flags: [u8; 2] = kani::any();
    let data: [u8; 9] = kani::any();
    let npts = [2u8];
    let instr: [u8; 2] = kani::any();
    let mut n_points_ctxt = ReadScope::new(&npts).ctxt();
    let mut flags_ctxt = ReadScope::new(&flags).ctxt();
    let mut glyphs_ctxt = ReadScope::new(&data).ctxt();
    let mut instr_ctxt = ReadScope::new(&instr).ctxt();
    let f0 = WoffFlag::new(flags[0]);
    let f1 = WoffFlag::new(flags[1]);
    let (n0, n1) = (f0.bytes_to_read(), f1.bytes_to_read());
    kani::assume(data[n0 + n1] < 3); // instruction length (one-byte 255UInt16) within the 2-byte instruction stream
    let b0 = [data[0], data[1], data[2], data[3]];
    let (_, dx0, dy0) = spec_triplet(flags[0], &b0);
    let b1 = [data[n0], data[n0 + 1], data[n0 + 2], data[n0 + 3]];
    let (_, dx1, dy1) = spec_triplet(flags[1], &b1);
    match Woff2GlyfTable::decode_simple_glyph(&mut n_points_ctxt, &mut flags_ctxt, &mut glyphs_ctxt, &mut instr_ctxt, 1) {
        Ok(g) => {
            assert!(g.end_pts_of_contours.len() == 1 && g.end_pts_of_contours[0] == 1);
            assert!(g.coordinates.len() == 2);
            let (x0, y0) = (dx0 as i16, dy0 as i16);
            assert!(g.coordinates[0].1 == Point(x0, y0), "first point is the first delta (relative to 0,0)");
            let (x1, y1) = (x0 as i32 + (dx1 as i16) as i32, y0 as i32 + (dy1 as i16) as i32);
            assert!(g.coordinates[1].1 == Point(x1 as i16, y1 as i16) && x1 == (x1 as i16) as i32 && y1 == (y1 as i16) as i32, "second point = first + second delta");
            assert!(g.coordinates[0].0.is_on_curve() == (flags[0] & 0x80 == 0) && g.coordinates[1].0.is_on_curve() == (flags[1] & 0x80 == 0));
            assert!(g.instructions.len() == data[n0 + n1] as usize);
        }
        Err(_) => {
            let (x1, y1) = ((dx0 as i16) as i32 + (dx1 as i16) as i32, (dy0 as i16) as i32 + (dy1 as i16) as i32);
            assert!(x1 != (x1 as i16) as i32 || y1 != (y1 as i16) as i32, "refused only when an absolute coordinate leaves the i16 range");
        }
    }
}
