//@ unit C17_tabs
//@ props C17
//@ module src/scripts/indic.rs
//@ strength complete (all chars / all char pairs, loop-free)
//@ note structural checks of the tables that the Verus units C17_ind / C17_cv abstract: every split stays inside the Unicode block
//@ note of the split character and is not itself splittable (decomposition is idempotent); every vowel constraint pairs characters of one block.

fn block(c: char) -> u32 { (c as u32) >> 7 }

//@ harness split_matra_table kind=complete fns=split_matra
#[kani::proof]
fn split_matra_table() {
    let c: char = kani::any();
    match split_matra(c) {
        MatraSplit::None => {}
        MatraSplit::Two(a, b) => {
            assert!(block(a) == block(c) && block(b) == block(c), "parts belong to the script of the matra");
            assert!(matches!(split_matra(a), MatraSplit::None) && matches!(split_matra(b), MatraSplit::None), "parts are not splittable again");
            assert!(a != c && b != c);
            assert!(c as u32 >= 0x0900 && c as u32 <= 0x0DFF);
        }
        MatraSplit::Three(a, b, d) => {
            assert!(block(a) == block(c) && block(b) == block(c) && block(d) == block(c));
            assert!(matches!(split_matra(a), MatraSplit::None) && matches!(split_matra(b), MatraSplit::None) && matches!(split_matra(d), MatraSplit::None));
        }
    }
}

//@ harness vowel_constraint_table kind=complete fns=vowel_constraint
#[kani::proof]
fn vowel_constraint_table() {
    let c1: char = kani::any();
    let c2: char = kani::any();
    match vowel_constraint(c1, c2) {
        InsertConstraint::None => {}
        InsertConstraint::Between => assert!(block(c1) == block(c2) && c1 as u32 >= 0x0900 && (c1 as u32) < 0x0E00, "a prohibited pair is made of one script's vowels"),
        InsertConstraint::MaybeAfter(c3) => assert!(c1 == '\u{0930}' && c2 == '\u{094D}' && c3 == '\u{0907}', "the only triple rule is Devanagari reph + letter I"),
    }
}

//@ harness kannada_swap kind=bounded:4chars fns=reorder_kannada_ra_halant_zwj
#[kani::proof]
#[kani::unwind(18)]
fn kannada_swap() {
    let inp: [char; 4] = kani::any();
    let n: usize = kani::any();
    kani::assume(n <= 4);
    let mut cs = inp;
    reorder_kannada_ra_halant_zwj(&mut cs[..n]);
    if n >= 3 && inp[0] == '\u{0CB0}' && inp[1] == '\u{0CCD}' && inp[2] == '\u{200D}' {
        assert!(cs[0] == inp[0] && cs[1] == inp[2] && cs[2] == inp[1] && cs[3] == inp[3], "Ra, Halant, ZWJ -> Ra, ZWJ, Halant");
    } else {
        assert!(cs == inp, "anything else is left alone");
    }
}
