//@ unit C09_cff
//@ props C09 C15 C01
//@ module src/cff.rs
//@ strength complete for offset_size (all usize); bounded(INDEX offset arrays of 2 entries; last offset symbolic over the full u32 range) for serialise_offset_array
//@ unverified owned::Index write / read_index round trip on object data, DICT two-pass offsets, charsets, FDSelect

//@ harness cff_offset_size kind=complete fns=offset_size props=C09,C15
#[kani::proof]
fn cff_offset_size() {
    // the smallest offSize that can hold the value (CFF INDEX offsets are 1-based: the LAST offset is data length + 1)
    let v: usize = kani::any();
    match offset_size(v) {
        Some(1) => assert!(v <= 0xFF),
        Some(2) => assert!(v > 0xFF && v <= 0xFFFF),
        Some(3) => assert!(v > 0xFFFF && v <= 0xFF_FFFF),
        Some(4) => assert!(v > 0xFF_FFFF && v <= 0xFFFF_FFFF),
        Some(_) => panic!("offSize is 1..=4"),
        None => assert!(v > 0xFFFF_FFFF),
    }
}

fn offset_array_case(size: u8, last: usize) {
    // offsets [1, last]: every offset must be readable back from the serialised array, in particular the last one
    let (off_size, bytes) = serialise_offset_array(vec![1, last]).unwrap();
    assert!(off_size == size, "offSize holds the LAST offset (object data length + 1)");
    assert!(bytes.len() == 2 * size as usize);
    let mut v: usize = 0;
    let mut i = 0;
    while i < size as usize { v = (v << 8) | bytes[size as usize + i] as usize; i += 1; }
    assert!(v == last, "the last offset is not truncated");
}

//@ harness cff_offset_array kind=bounded:2offsets fns=serialise_offset_array,offset_size timeout=600 props=C09,C15
#[kani::proof]
#[kani::unwind(6)]
fn cff_offset_array() {
    // one case per offSize (a symbolic write length does not finish under CBMC); the last offset symbolic within its class,
    // including the class boundaries 255/256, 65535/65536, 2^24-1/2^24
    let a: usize = kani::any(); kani::assume(a >= 1 && a <= 0xFF); offset_array_case(1, a);
    let b: usize = kani::any(); kani::assume(b > 0xFF && b <= 0xFFFF); offset_array_case(2, b);
    let c: usize = kani::any(); kani::assume(c > 0xFFFF && c <= 0xFF_FFFF); offset_array_case(3, c);
    let d: usize = kani::any(); kani::assume(d > 0xFF_FFFF && d <= 0xFFFF_FFFF); offset_array_case(4, d);
}

//@ harness index_read_object kind=bounded:2objects_offSize1 fns=read_index,lookup_offset_index,Index::read_object props=C01,C15
#[kani::proof]
#[kani::unwind(6)]
fn index_read_object() {
    // a CFF INDEX with two objects and 1-byte offsets; ANY offset values (zero, decreasing, beyond the data) and any object index:
    // never a panic - an object is either exactly data[offset[i]-1 .. offset[i+1]-1] or it is refused
    let offs: [u8; 3] = kani::any();
    let data: [u8; 4] = kani::any();
    let bytes = [1u8, offs[0], offs[1], offs[2], data[0], data[1], data[2], data[3]];
    let mut ctxt = ReadScope::new(&bytes).ctxt();
    if let Ok(index) = read_index(&mut ctxt, 2) {
        let i: usize = kani::any();
        match index.read_object(i) {
            Some(obj) => {
                assert!(i < 2);
                let (s, e) = (offs[i] as usize, offs[i + 1] as usize);
                assert!(s >= 1 && s <= e && e - 1 <= index.data_array.len(), "an object is only delivered for a well-formed offset pair");
                assert!(obj.len() == e - s);
                let k: usize = kani::any();
                if k < obj.len() { assert!(obj[k] == data[s - 1 + k], "object bytes = data[offset[i]-1 ..]"); }
            }
            None => {}
        }
    }
}
