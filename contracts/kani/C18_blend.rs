//@ unit C18_blend
//@ props C18 C01
//@ module src/cff/cff2.rs
//@ strength bounded(n <= 2 results, k <= 2 regions; operands small integers, scalars from {absent, 0, 0.5, 1} so that every f32 product and sum is exact)
//@ unverified the scalar computation (ItemVariationStore::regions / calculate_scalar: unit C12_var), blend inside the charstring interpreter loop
use crate::cff::charstring::ArgumentsStack;

fn any_scalar() -> Option<f32> { match kani::any::<u8>() % 4 { 0 => None, 1 => Some(0.0), 2 => Some(0.5), _ => Some(1.0) } }
fn sv(s: Option<f32>) -> f32 { s.unwrap_or(0.0) }

fn no_regions_case(n: u8) {
    // a variation store whose delta set references no region (k = 0): blend leaves the n default values - never a panic
    let d: [i8; 2] = kani::any();
    let mut data = [d[0] as f32, d[1] as f32, n as f32, 0.0];
    let mut stack = ArgumentsStack { data: &mut data, len: 3, max_len: 4 };
    let r = blend::<f32>(&[], &mut stack);
    assert!(r.is_ok());
    assert!(stack.len == 2, "the default values stay, the count operand is consumed");
    assert!(stack.data[0] == d[0] as f32 && stack.data[1] == d[1] as f32, "without regions the defaults stand");
}

//@ harness blend_no_regions kind=bounded:k0_n0_1_2 fns=blend timeout=900
#[kani::proof]
#[kani::unwind(6)]
fn blend_no_regions() { no_regions_case(0); no_regions_case(1); no_regions_case(2); }

//@ harness blend_values kind=bounded:n2_k2 fns=blend timeout=900
#[kani::proof]
#[kani::unwind(8)]
fn blend_values() {
    // Adobe TN#5177 / CFF2 blend: n*(k+1) operands d1..dn, then for each i the k deltas; result_i = d_i + sum_j scalar_j * delta_ij
    let v: [i8; 6] = kani::any();
    let mut i = 0; while i < 6 { kani::assume(v[i] >= -16 && v[i] <= 16); i += 1; }
    let s = [any_scalar(), any_scalar()];
    // n = 2, k = 2: defaults v0 v1, deltas of value 0: v2 v3, deltas of value 1: v4 v5, then n
    let mut data = [v[0] as f32, v[1] as f32, v[2] as f32, v[3] as f32, v[4] as f32, v[5] as f32, 2.0, 0.0];
    let mut stack = ArgumentsStack { data: &mut data, len: 7, max_len: 8 };
    let r = blend::<f32>(&s, &mut stack);
    assert!(r.is_ok());
    assert!(stack.len == 2);
    let want0 = v[0] as f32 + sv(s[0]) * v[2] as f32 + sv(s[1]) * v[3] as f32;
    let want1 = v[1] as f32 + sv(s[0]) * v[4] as f32 + sv(s[1]) * v[5] as f32;
    assert!(stack.data[0] == want0 && stack.data[1] == want1, "blended operand = default + scalar-weighted deltas");
}
