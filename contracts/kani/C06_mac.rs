//@ unit C06_mac
//@ props C06
//@ module src/macroman.rs
//@ strength complete (all 256 bytes x all scalar values, loop-free)

//@ harness macroman_inverse kind=complete fns=macroman_to_char,char_to_macroman,is_macroman timeout=600
#[kani::proof]
fn macroman_inverse() {
    let b: u8 = kani::any();
    if let Some(c) = macroman_to_char(b) {
        assert!(char_to_macroman(c) == Some(b), "every Mac Roman byte decodes to a character that encodes back to it");
    }
    let x: char = kani::any();
    if let Some(y) = char_to_macroman(x) {
        assert!(macroman_to_char(y) == Some(x), "every encodable character decodes back to itself");
        assert!(is_macroman(x));
    } else {
        assert!(!is_macroman(x));
    }
}
