//@ unit C15_tabs
//@ props C15 C09
//@ module src/tables.rs
//@ strength complete (loop-free; every field value of the fixed-size structures, full domain)
//@ unverified name, OS/2, post (strings, version-dependent tails), CFF2 (CFF2::write output does not parse even without a variation store - demo, no check reaches it), item variation stores beyond one region / one 8-bit sub-table, count >= 65536 refusals
use crate::binary::write::{WriteBinary, WriteBuffer, WriteContext};
use crate::binary::{U8, I8, U24Be};

fn rt<T>(v: <T as ReadUnchecked>::HostType) -> <T as ReadUnchecked>::HostType
where
    T: ReadUnchecked + WriteBinary<<T as ReadUnchecked>::HostType, Output = ()>,
    <T as ReadUnchecked>::HostType: Copy,
{
    let mut w = WriteBuffer::new();
    T::write(&mut w, v).unwrap();
    assert!(w.bytes().len() == T::SIZE, "bytes written = declared size");
    ReadScope::new(w.bytes()).read::<T>().unwrap()
}

//@ harness prim_roundtrip kind=complete fns=WriteBinary_for_U8..I64Be::write,ReadUnchecked::read_unchecked,WriteBuffer::write_bytes
#[kani::proof]
fn prim_roundtrip() {
    match kani::any::<u8>() % 7 {
        0 => { let v: u8 = kani::any(); assert!(rt::<U8>(v) == v); }
        1 => { let v: i8 = kani::any(); assert!(rt::<I8>(v) == v); }
        2 => { let v: u16 = kani::any(); assert!(rt::<U16Be>(v) == v); }
        3 => { let v: i16 = kani::any(); assert!(rt::<I16Be>(v) == v); }
        4 => { let v: u32 = kani::any(); assert!(rt::<U32Be>(v) == v); }
        5 => { let v: i32 = kani::any(); assert!(rt::<I32Be>(v) == v); }
        _ => { let v: i64 = kani::any(); assert!(rt::<I64Be>(v) == v); }
    }
}

//@ harness u24_roundtrip kind=complete fns=WriteBinary_for_U24Be::write
#[kani::proof]
fn u24_roundtrip() {
    let v: u32 = kani::any();
    let mut w = WriteBuffer::new();
    match U24Be::write(&mut w, v) {
        Ok(()) => {
            assert!(v <= 0xFF_FFFF, "a value wider than 24 bits is refused, not truncated");
            assert!(w.bytes().len() == 3);
            assert!(ReadScope::new(w.bytes()).read::<U24Be>().unwrap() == v);
        }
        Err(_) => assert!(v > 0xFF_FFFF),
    }
}

//@ harness records_roundtrip kind=complete fns=LongHorMetric::write,TableRecord::write,Fixed::write,F2Dot14::write,IndexToLocFormat::write,LongHorMetric::read_from,TableRecord::read_from
#[kani::proof]
fn records_roundtrip() {
    let mut w = WriteBuffer::new();
    match kani::any::<u8>() % 5 {
        0 => {
            let m = LongHorMetric { advance_width: kani::any(), lsb: kani::any() };
            LongHorMetric::write(&mut w, m).unwrap();
            assert!(w.bytes().len() == 4);
            assert!(ReadScope::new(w.bytes()).read::<LongHorMetric>().unwrap() == m);
        }
        1 => {
            let r = TableRecord { table_tag: kani::any(), checksum: kani::any(), offset: kani::any(), length: kani::any() };
            TableRecord::write(&mut w, &r).unwrap();
            assert!(w.bytes().len() == 16);
            let back = ReadScope::new(w.bytes()).read::<TableRecord>().unwrap();
            assert!(back.table_tag == r.table_tag && back.checksum == r.checksum && back.offset == r.offset && back.length == r.length);
        }
        2 => {
            let f = Fixed::from_raw(kani::any());
            Fixed::write(&mut w, f).unwrap();
            assert!(ReadScope::new(w.bytes()).read::<Fixed>().unwrap() == f && w.bytes().len() == 4);
        }
        3 => {
            let f = F2Dot14::from_raw(kani::any());
            F2Dot14::write(&mut w, f).unwrap();
            assert!(ReadScope::new(w.bytes()).read::<F2Dot14>().unwrap() == f && w.bytes().len() == 2);
        }
        _ => {
            let f = if kani::any() { IndexToLocFormat::Short } else { IndexToLocFormat::Long };
            IndexToLocFormat::write(&mut w, f).unwrap();
            assert!(ReadScope::new(w.bytes()).read::<IndexToLocFormat>().unwrap() == f && w.bytes().len() == 2);
        }
    }
}

//@ harness head_roundtrip kind=complete fns=HeadTable::write,HeadTable::read,WriteBuffer::placeholder,WriteBuffer::write_placeholder
#[kani::proof]
fn head_roundtrip() {
    let t = HeadTable {
        major_version: kani::any(), minor_version: kani::any(), font_revision: Fixed::from_raw(kani::any()),
        check_sum_adjustment: kani::any(), magic_number: 0x5F0F3CF5, flags: kani::any(), units_per_em: kani::any(),
        created: kani::any(), modified: kani::any(), x_min: kani::any(), y_min: kani::any(), x_max: kani::any(), y_max: kani::any(),
        mac_style: MacStyle::from_bits_truncate(kani::any()), lowest_rec_ppem: kani::any(), font_direction_hint: kani::any(),
        index_to_loc_format: if kani::any() { IndexToLocFormat::Short } else { IndexToLocFormat::Long }, glyph_data_format: kani::any(),
    };
    let mut w = WriteBuffer::new();
    let ph = HeadTable::write(&mut w, &t).unwrap();
    w.write_placeholder(ph, t.check_sum_adjustment).unwrap();
    assert!(w.bytes().len() == 54, "head is 54 bytes");
    let back = ReadScope::new(w.bytes()).read::<HeadTable>().unwrap();
    assert!(back == t, "head: read(write(t)) == t (checkSumAdjustment through its placeholder)");
}

//@ harness hhea_maxp_roundtrip kind=complete fns=HheaTable::write,HheaTable::read,MaxpTable::write,MaxpTable::read
#[kani::proof]
fn hhea_maxp_roundtrip() {
    let mut w = WriteBuffer::new();
    if kani::any() {
        let t = HheaTable {
            ascender: kani::any(), descender: kani::any(), line_gap: kani::any(), advance_width_max: kani::any(),
            min_left_side_bearing: kani::any(), min_right_side_bearing: kani::any(), x_max_extent: kani::any(),
            caret_slope_rise: kani::any(), caret_slope_run: kani::any(), caret_offset: kani::any(), num_h_metrics: kani::any(),
        };
        HheaTable::write(&mut w, &t).unwrap();
        assert!(w.bytes().len() == 36);
        assert!(ReadScope::new(w.bytes()).read::<HheaTable>().unwrap() == t);
    } else {
        let v1 = if kani::any() {
            Some(MaxpVersion1SubTable {
                max_points: kani::any(), max_contours: kani::any(), max_composite_points: kani::any(), max_composite_contours: kani::any(),
                max_zones: kani::any(), max_twilight_points: kani::any(), max_storage: kani::any(), max_function_defs: kani::any(),
                max_instruction_defs: kani::any(), max_stack_elements: kani::any(), max_size_of_instructions: kani::any(),
                max_component_elements: kani::any(), max_component_depth: kani::any(),
            })
        } else { None };
        let t = MaxpTable { num_glyphs: kani::any(), version1_sub_table: v1 };
        MaxpTable::write(&mut w, &t).unwrap();
        assert!(w.bytes().len() == if t.version1_sub_table.is_some() { 32 } else { 6 });
        assert!(ReadScope::new(w.bytes()).read::<MaxpTable>().unwrap() == t);
    }
}

//@ harness placeholder_size kind=complete fns=WriteSlice::write_bytes,WriteBuffer::write_placeholder,WriteBuffer::reserve
#[kani::proof]
fn placeholder_size() {
    // a placeholder reserved for a 16-bit value: a value of the wrong size is refused with PlaceholderMismatch, never a panic or a short write
    let mut w = WriteBuffer::new();
    U16Be::write(&mut w, 0xAAAAu16).unwrap();
    let ph = w.placeholder::<U16Be, u16>().unwrap();
    U16Be::write(&mut w, 0xBBBBu16).unwrap();
    let v: u16 = kani::any();
    w.write_placeholder(ph, v).unwrap();
    assert!(w.bytes().len() == 6 && w.bytes()[2] == (v >> 8) as u8 && w.bytes()[3] == v as u8, "back-patched in place");
    assert!(w.bytes()[0] == 0xAA && w.bytes()[4] == 0xBB, "nothing else changed");
    // a 16-byte structure into a 4-byte reservation: the second field does not fit and must be refused, not panic
    let mut w2 = WriteBuffer::new();
    let small = w2.reserve::<TableRecord, TableRecord>(4).unwrap();
    let rec = TableRecord { table_tag: kani::any(), checksum: kani::any(), offset: kani::any(), length: kani::any() };
    let r = w2.write_placeholder(small, &rec);
    assert!(r.is_err(), "a value larger than its placeholder is refused");
}

// ---- item variation store (OpenType "Item variation store header": format u16, variationRegionListOffset Offset32,
//      itemVariationDataCount u16, itemVariationDataOffsets Offset32[]; all offsets from the start of the store) ----------
//@ harness ivs_roundtrip kind=bounded:1region_1subtable_8bit_delta fns=ItemVariationStore::write,ItemVariationStore::read,VariationRegionList::write,VariationRegionList::read,ItemVariationData::write,ItemVariationData::read timeout=900
#[kani::proof]
#[kani::unwind(36)]
fn ivs_roundtrip() { ivs_case(false) }

//@ harness ivs_roundtrip_long kind=bounded:1region_1subtable_LONG_WORDS_32bit_delta fns=ItemVariationStore::write,ItemVariationStore::read,ItemVariationData::write,ItemVariationData::read timeout=900
#[kani::proof]
#[kani::unwind(36)]
fn ivs_roundtrip_long() { ivs_case(true) }

fn ivs_case(long_words: bool) {
    use crate::tables::variable_fonts::ItemVariationStore;
    // canonical layout of a store with one region on one axis and one delta-set sub-table holding one delta:
    // an 8-bit delta (wordDeltaCount = 0), or a 32-bit delta (wordDeltaCount = LONG_WORDS | 1); coordinates and delta bytes symbolic
    let coords: [u8; 6] = kani::any();
    let delta: [u8; 4] = kani::any();
    let n = if long_words { 34 } else { 31 };
    let mut b = [0u8; 34];
    b[1] = 1;                 // format
    b[5] = 12;                // variationRegionListOffset
    b[7] = 1;                 // itemVariationDataCount
    b[11] = 22;               // itemVariationDataOffsets[0]
    b[13] = 1; b[15] = 1;     // axisCount, regionCount
    let mut i = 0; while i < 6 { b[16 + i] = coords[i]; i += 1; }
    b[23] = 1;                // itemCount
    if long_words { b[24] = 0x80; b[25] = 1; } // wordDeltaCount
    b[27] = 1;                // regionIndexCount
    b[30] = delta[0];
    if long_words { b[31] = delta[1]; b[32] = delta[2]; b[33] = delta[3]; }
    let store = match ReadScope::new(&b[..n]).read::<ItemVariationStore<'_>>() { Ok(s) => s, Err(_) => { assert!(false, "a well-formed store parses"); return; } };
    let mut out = WriteBuffer::new();
    assert!(ItemVariationStore::write(&mut out, &store).is_ok());
    let bytes = out.into_inner();
    assert!(bytes.len() == n, "written size");
    let mut i = 0; while i < n { assert!(bytes[i] == b[i], "write(read(bytes)) == bytes"); i += 1; }
}
