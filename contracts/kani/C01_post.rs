//@ unit C01_post
//@ props C01
//@ module src/post.rs
//@ strength bounded(post version 2.0 with 1 glyph, 1-2 empty custom names, the table cut at 35/36/37/38 bytes)
//@ unverified post versions 1.0/2.5/3.0 content, name strings longer than one byte, the post writer

use crate::binary::read::ReadScope;

fn post_case(len: usize) {
    // header (32 bytes, version 2.0), numGlyphs = 1, one glyphNameIndex (258 or 259 -> needs 1 or 2 custom names), then Pascal
    // strings of length 0; the table is cut after `len` bytes (concrete per case: a symbolic cut exhausts CBMC's memory)
    let mut b = [0u8; 40];
    b[1] = 2; // version 0x00020000
    b[33] = 1; // numGlyphs
    let extra: u8 = kani::any();
    kani::assume(extra <= 1);
    b[34] = 1; b[35] = 2 + extra; // 258 + extra
    if let Ok(post) = ReadScope::new(&b[..len]).read::<PostTable<'_>>() {
        // every accepted table answers every glyph index with a name, absence or an error - never a panic
        let g: u16 = kani::any();
        let _ = post.glyph_name(g);
    }
}

//@ harness post_v2_names kind=bounded:2names fns=PostTable::read,PostTable::glyph_name,PascalString::to_str timeout=900
#[kani::proof]
#[kani::unwind(6)]
fn post_v2_names() {
    post_case(36); // cut exactly before the first name
    post_case(37); // cut on the boundary between the first and the second name
    post_case(38); // both names present
    post_case(35); // cut inside the glyphNameIndex array
}
