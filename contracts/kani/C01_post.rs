//@ unit C01_post
//@ props C01
//@ module src/post.rs
//@ strength bounded(post version 2.0 with 1 glyph, <= 2 custom names of <= 1 byte, any truncation of the table)
//@ unverified post versions 1.0/2.5/3.0 content, name strings longer than one byte, the post writer

//@ harness post_v2_names kind=bounded:2names fns=PostTable::read,PostTable::glyph_name,PascalString::to_str timeout=900
#[kani::proof]
#[kani::unwind(6)]
fn post_v2_names() {
    // header (32 bytes, version 2.0), numGlyphs = 1, one glyphNameIndex (258 or 259 -> needs 1 or 2 custom names), then Pascal strings
    let mut b = [0u8; 40];
    b[1] = 2; // version 0x00020000
    b[33] = 1; // numGlyphs
    let extra: u8 = kani::any();
    kani::assume(extra <= 1);
    b[34] = 1; b[35] = 2 + extra; // 258 + extra
    let s: [u8; 4] = kani::any();
    kani::assume(s[0] <= 1 && s[2] <= 1); // name lengths 0 or 1
    b[36..40].copy_from_slice(&s);
    let len: usize = kani::any();
    kani::assume(len >= 32 && len <= 40); // any truncation after the header
    if let Ok(post) = ReadScope::new(&b[..len]).read::<PostTable<'_>>() {
        // every accepted table answers every glyph index with a name, absence or an error - never a panic
        let g: u16 = kani::any();
        let _ = post.glyph_name(g);
    }
}
