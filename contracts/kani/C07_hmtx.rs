//@ unit C07_hmtx
//@ props C07 C09 C01
//@ module src/subset.rs
//@ strength bounded(source font of 4 glyphs with a symbolic numberOfHMetrics in 0..=4, subset of 2 glyphs with symbolic old ids; metric values symbolic)
//@ unverified GlyfTable::subset driver (FxHashMap collect: out of reach, measured), CFF/CFF2 subsetting, Type1->CID conversion, outline equality end to end

struct TwoGlyphs([u16; 2]);
impl SubsetGlyphs for TwoGlyphs {
    fn len(&self) -> usize { 2 }
    fn old_id(&self, new_id: u16) -> u16 { self.0[new_id as usize] }
    fn new_id(&self, _old_id: u16) -> u16 { 0 }
}

//@ harness hmtx_subset kind=bounded:4glyphs fns=create_hmtx_table,HmtxTable::read_dep timeout=900
#[kani::proof]
#[kani::unwind(6)]
fn hmtx_subset() {
    // source hmtx for 4 glyphs: n long metrics (advance, lsb) followed by 4 - n left side bearings
    let n: usize = kani::any();
    kani::assume(n <= 4);
    let bytes: [u8; 16] = kani::any();
    let len = 4 * n + 2 * (4 - n);
    let hmtx = ReadScope::new(&bytes[..len]).read_dep::<HmtxTable<'_>>((4, n)).unwrap();
    let ids = TwoGlyphs([kani::any(), kani::any()]);
    kani::assume(ids.0[0] < 4 && ids.0[1] < 4);
    let be16 = |at: usize| ((bytes[at] as u16) << 8) | bytes[at + 1] as u16;
    match create_hmtx_table(&hmtx, n, &ids) {
        Ok(out) => {
            assert!(n >= 1);
            assert!(out.h_metrics.len() == 2 && out.left_side_bearings.len() == 0, "one full metric per retained glyph");
            let k: usize = kani::any();
            kani::assume(k < 2);
            let old = ids.0[k] as usize;
            let m = out.h_metrics.read_item(k).unwrap();
            // hmtx rule: glyphs below numberOfHMetrics have their own record; later glyphs repeat the last advance and take their
            // side bearing from the trailing array at (glyph - numberOfHMetrics)
            let (adv, lsb) = if old < n { (be16(4 * old), be16(4 * old + 2) as i16) } else { (be16(4 * (n - 1)), be16(4 * n + 2 * (old - n)) as i16) };
            assert!(m.advance_width == adv && m.lsb == lsb, "new glyph k has the advance width and left side bearing of its source glyph");
        }
        Err(_) => assert!(n == 0, "only a source table without any long metric is refused (an error, not a panic)"),
    }
}
