//@ unit C04_subst
//@ props C04 C02
//@ module src/gsub.rs
//@ strength complete (loop-free) for checked_add; bounded(run of 2 glyphs) for replace_missing_glyphs
//@ unverified multiplesubst / ligaturesubst / Ligature::apply: the harnesses multiple_subst and ligature_subst are kept but switched off - a Vec<RawGlyph> (TinyVec inside) with one insert/remove exhausts 16 GB in CBMC's propositional reduction (measured), and Verus cannot take TinyVec/closures
//@ unverified gsub_apply_lookup (cursor/length bookkeeping per lookup type; needs LookupList::lookup_cache_gsub -> RefCell/HashMap caches: out of reach), apply_subst / nested lookups, build_lookups_default (BTreeMap lookup ordering), feature variations, extension lookups, contextual rule selection
use crate::layout::verif_L_ctor::{mk_ligature_subst, mk_multiple};
use crate::context::LookupFlag;

fn g(gid: u16, ch: char) -> RawGlyph<()> {
    RawGlyph { unicodes: tiny_vec![[char; 1] => ch], glyph_index: gid, liga_component_pos: 0, glyph_origin: GlyphOrigin::Char(ch), flags: RawGlyphFlags::empty(), variation: None, extra_data: () }
}

//@ harness length_arith kind=complete fns=checked_add
#[kani::proof]
fn length_arith() {
    let base: usize = kani::any();
    let ch: isize = kani::any();
    let want = base as i128 + ch as i128;
    match checked_add(base, ch) {
        Some(v) => assert!(want >= 0 && want <= usize::MAX as i128 && v as i128 == want),
        None => assert!(want < 0 || want > usize::MAX as i128),
    }
}

fn multiple_case(n: usize) {
    // one sub-table covering glyph 10 with a replacement sequence of n glyphs (n concrete: a symbolic sequence length exhausts CBMC)
    let seq: [u16; 2] = kani::any();
    let other: u16 = kani::any();
    let mut run = vec![g(10, 'a'), g(other, 'b')];
    let sub = [match n { 0 => mk_multiple(vec![10], vec![vec![]]), 1 => mk_multiple(vec![10], vec![vec![seq[0]]]), _ => mk_multiple(vec![10], vec![vec![seq[0], seq[1]]]) }];
    let r = multiplesubst(&sub, 0, &mut run).unwrap();
    assert!(r == Some(n), "reports the number of glyphs the covered glyph was replaced by");
    assert!(run.len() == 1 + n, "the run grows / shrinks by exactly that");
    let last = run.len() - 1;
    assert!(run[last].glyph_index == other && run[last].unicodes[0] == 'b', "glyphs after the substituted one are untouched and stay in place");
    if n >= 1 { assert!(run[0].glyph_index == seq[0] && run[0].unicodes[0] == 'a'); }
    if n == 2 {
        assert!(run[1].glyph_index == seq[1] && run[1].unicodes[0] == 'a', "multiple substitution replicates the characters of the source glyph");
        assert!(run[1].flags.contains(RawGlyphFlags::MULTI_SUBST_DUP));
    }
}

//@ harness multiple_subst kind=bounded:run2_seq0_1_2 fns=multiplesubst tier=off timeout=900
#[kani::proof]
#[kani::unwind(6)]
fn multiple_subst() {
    multiple_case(2);
}

//@ harness ligature_subst kind=bounded:run3_comps2 fns=ligaturesubst tier=off timeout=900
#[kani::proof]
#[kani::unwind(7)]
fn ligature_subst() {
    // ligature 10 + 20 -> 99, no lookup flags (nothing is skipped)
    let sub = [mk_ligature_subst(10, 99, vec![20])];
    let mt = MatchType::from_lookup_flag(LookupFlag(0), None);
    let third: u16 = kani::any();
    let mut run = vec![g(10, 'x'), g(20, 'y'), g(third, 'z')];
    let r = ligaturesubst(None, &sub, mt, 0, &mut run).unwrap();
    assert!(r == Some((1, 0)) && run.len() == 2, "one component removed, nothing skipped");
    assert!(run[0].glyph_index == 99 && run[0].unicodes.len() == 2 && run[0].unicodes[0] == 'x' && run[0].unicodes[1] == 'y', "the ligature carries the characters of all its components");
    assert!(run[1].glyph_index == third && run[1].unicodes[0] == 'z');
    // the component does not follow: nothing happens
    let second: u16 = kani::any();
    kani::assume(second != 20);
    let mut run2 = vec![g(10, 'x'), g(second, 'y')];
    assert!(ligaturesubst(None, &sub, mt, 0, &mut run2).unwrap().is_none() && run2.len() == 2 && run2[0].glyph_index == 10);
    // at the end of the run: no panic
    let mut run3 = vec![g(10, 'x')];
    assert!(ligaturesubst(None, &sub, mt, 0, &mut run3).unwrap().is_none());
}

//@ harness missing_glyphs kind=bounded:run2 fns=replace_missing_glyphs timeout=600 props=C02
#[kani::proof]
#[kani::unwind(5)]
fn missing_glyphs() {
    let ids: [u16; 2] = kani::any();
    let n: u16 = kani::any();
    let mut run = vec![g(ids[0], 'p'), g(ids[1], 'q')];
    replace_missing_glyphs(&mut run, n);
    let k: usize = kani::any();
    kani::assume(k < 2);
    if n > 0 { assert!(run[k].glyph_index < n, "for a font with glyphs every glyph id of the run is below the glyph count"); }
    if ids[k] < n { assert!(run[k].glyph_index == ids[k] && run[k].unicodes.len() == 1, "valid glyphs are untouched"); } else { assert!(run[k].glyph_index == 0); }
}
