//@ unit R_array
//@ props C14 C01
//@ module src/binary/read.rs
//@ strength bounded(buffer<=16 bytes); complete in the usize arguments length/stride/index/offset
//@ assume Kani's model of slices and pointer validity; CBMC bit-precise semantics; 64-bit usize
//@ note generic reader API (GAT-based; not extractable for Verus): every entry point is executed on the REAL generic code,
//@ note instantiated at the primitive and tuple shapes the crate uses, with fully symbolic usize arguments.

fn any_buf() -> ([u8; 16], usize) {
    let buf: [u8; 16] = kani::any();
    let len: usize = kani::any();
    kani::assume(len <= 16);
    (buf, len)
}

// --- check_avail: the completeness direction that Verus cannot show (guard with a call) -------
//@ harness r_avail kind=complete fns=ReadCtxt::check_avail
#[kani::proof]
fn r_avail() {
    let (buf, len) = any_buf();
    let scope = ReadScope::new(&buf[..len]);
    let mut ctxt = scope.ctxt();
    let off: usize = kani::any();
    kani::assume(off <= len);
    ctxt.offset = off;
    let n: usize = kani::any();
    let r = ctxt.check_avail(n);
    let fits = n <= len - off; // off + n <= len over the mathematical integers
    assert!(r.is_ok() == fits, "check_avail(n) is Ok exactly when offset + n <= len");
    kani::cover!(r.is_ok() && n > 0);
    kani::cover!(r.is_err());
}

// --- typed reads on the generic ReadBinary path: value, cursor, no effect on error -------------
fn typed_read<T: ReadUnchecked>(size: usize)
where
    T::HostType: PartialEq,
{
    let (buf, len) = any_buf();
    let scope = ReadScope::new(&buf[..len]);
    let mut ctxt = scope.ctxt();
    let skip: usize = kani::any();
    if ctxt.read_slice(skip).is_err() {
        assert!(skip > len);
        return;
    }
    assert!(T::SIZE == size);
    let before = ctxt.offset;
    match ctxt.read::<T>() {
        Ok(_v) => {
            assert!(before + size <= len, "Ok only when SIZE bytes are available");
            assert!(ctxt.offset == before + size, "cursor advanced by exactly SIZE");
        }
        Err(e) => {
            assert!(before + size > len, "Err only when the bytes are missing");
            assert!(ctxt.offset == before, "no effect on error");
            assert!(e == ParseError::BadEof);
        }
    }
}

//@ harness r_read_prims kind=bounded:16 fns=ReadBinary::read,ReadUnchecked::read_unchecked
#[kani::proof]
fn r_read_prims() {
    match kani::any::<u8>() % 9 {
        0 => typed_read::<U8>(1),
        1 => typed_read::<I8>(1),
        2 => typed_read::<U16Be>(2),
        3 => typed_read::<I16Be>(2),
        4 => typed_read::<U24Be>(3),
        5 => typed_read::<U32Be>(4),
        6 => typed_read::<I32Be>(4),
        7 => typed_read::<U64Be>(8),
        _ => typed_read::<I64Be>(8),
    }
}

//@ harness r_read_tuples kind=bounded:16 fns=ReadUnchecked_for_tuples::read_unchecked
#[kani::proof]
fn r_read_tuples() {
    match kani::any::<u8>() % 4 {
        0 => typed_read::<(U16Be, I16Be)>(4),
        1 => typed_read::<(U16Be, U16Be, U32Be)>(8),
        2 => typed_read::<((U32Be, U32Be), (U32Be, U32Be))>(16),
        _ => typed_read::<(U8, U8, U8, U8)>(4),
    }
}

// value decoded by the generic path equals the big-endian value at the cursor
//@ harness r_read_values kind=bounded:16 fns=ReadUnchecked::read_unchecked
#[kani::proof]
fn r_read_values() {
    let (buf, len) = any_buf();
    let scope = ReadScope::new(&buf[..len]);
    let mut ctxt = scope.ctxt();
    let skip: usize = kani::any();
    kani::assume(skip <= 8 && len == 16);
    ctxt.read_slice(skip).unwrap();
    let b = |i: usize| buf[skip + i] as u64;
    match kani::any::<u8>() % 5 {
        0 => assert!(ctxt.read::<U16Be>().unwrap() as u64 == (b(0) << 8) + b(1)),
        1 => assert!(ctxt.read::<U24Be>().unwrap() as u64 == (b(0) << 16) + (b(1) << 8) + b(2)),
        2 => assert!(ctxt.read::<U32Be>().unwrap() as u64 == (b(0) << 24) + (b(1) << 16) + (b(2) << 8) + b(3)),
        3 => assert!(
            ctxt.read::<U64Be>().unwrap()
                == (b(0) << 56) + (b(1) << 48) + (b(2) << 40) + (b(3) << 32) + (b(4) << 24) + (b(5) << 16) + (b(6) << 8) + b(7)
        ),
        _ => {
            let (x, y) = ctxt.read::<(U16Be, I16Be)>().unwrap();
            assert!(x as u64 == (b(0) << 8) + b(1));
            assert!(y == (((b(2) << 8) + b(3)) as u16) as i16);
        }
    }
}

// --- arrays: window, indexed access, iteration ------------------------------------------------
fn array_window<T: ReadUnchecked>()
where
    T::HostType: PartialEq + Copy,
{
    let (buf, len) = any_buf();
    let scope = ReadScope::new(&buf[..len]);
    let mut ctxt = scope.ctxt();
    let skip: usize = kani::any();
    if ctxt.read_slice(skip).is_err() {
        return;
    }
    let count: usize = kani::any(); // FULL usize range, including values whose byte size wraps
    let size = T::SIZE;
    match ctxt.read_array::<T>(count) {
        Ok(a) => {
            assert!(count <= (len - skip) / size, "array accepted only if count*SIZE bytes are available");
            assert!(a.len() == count);
            assert!(ctxt.offset == skip + count * size, "cursor advanced by the window");
            let i: usize = kani::any();
            match a.get_item(i) {
                Some(v) => {
                    assert!(i < count, "no element outside the window");
                    let mut c2 = ReadScope::new(&buf[skip + i * size..skip + (i + 1) * size]).ctxt();
                    assert!(v == c2.read::<T>().unwrap(), "element i is the value at offset i*SIZE of the window");
                }
                None => assert!(i >= count),
            }
            assert!(a.read_item(i).is_ok() == (i < count));
            assert!(a.check_index(i).is_ok() == (i < count));
            assert!(a.is_empty() == (count == 0));
            match a.last() {
                Some(v) => assert!(Some(v) == a.get_item(count - 1)),
                None => assert!(count == 0),
            }
        }
        Err(_) => {
            assert!(count > (len - skip) / size, "an array that fits is never refused");
            assert!(ctxt.offset == skip, "no effect on error");
        }
    }
}

//@ harness r_array_u8 kind=bounded:16 fns=ReadCtxt::read_array,ReadArray::get_item,ReadArray::read_item,ReadArray::last,ReadArray::check_index
#[kani::proof]
fn r_array_u8() { array_window::<U8>() }
//@ harness r_array_u16 kind=bounded:16 fns=ReadCtxt::read_array,ReadArray::get_item,ReadArray::read_item
#[kani::proof]
fn r_array_u16() { array_window::<U16Be>() }
//@ harness r_array_u24 kind=bounded:16 fns=ReadCtxt::read_array,ReadArray::get_item,ReadArray::read_item
#[kani::proof]
fn r_array_u24() { array_window::<U24Be>() }
//@ harness r_array_u32 kind=bounded:16 fns=ReadCtxt::read_array,ReadArray::get_item,ReadArray::read_item
#[kani::proof]
fn r_array_u32() { array_window::<U32Be>() }
//@ harness r_array_pair kind=bounded:16 fns=ReadCtxt::read_array,ReadArray::get_item,ReadArray::read_item
#[kani::proof]
fn r_array_pair() { array_window::<(U16Be, I16Be)>() }

//@ harness r_array_stride kind=bounded:16 fns=ReadCtxt::read_array_stride,ReadArray::get_item,ReadArrayIter::next
#[kani::proof]
#[kani::unwind(18)]
fn r_array_stride() {
    let (buf, len) = any_buf();
    let scope = ReadScope::new(&buf[..len]);
    let mut ctxt = scope.ctxt();
    let count: usize = kani::any();
    let stride: usize = kani::any();
    match ctxt.read_array_stride::<U16Be>(count, stride) {
        Ok(a) => {
            assert!(stride >= 2);
            assert!(count <= len / stride, "strided array accepted only if count*stride bytes are available");
            assert!(ctxt.offset == count * stride);
            let i: usize = kani::any();
            match a.get_item(i) {
                Some(v) => {
                    assert!(i < count);
                    assert!(v == ((buf[i * stride] as u16) << 8) + buf[i * stride + 1] as u16);
                }
                None => assert!(i >= count),
            }
            // iteration yields exactly the `count` elements, in order
            let mut n = 0usize;
            for v in a.iter() {
                assert!(n < count, "iterator yields no element outside the window");
                assert!(v == ((buf[n * stride] as u16) << 8) + buf[n * stride + 1] as u16);
                n += 1;
            }
            assert!(n == count);
        }
        Err(e) => {
            assert!(stride < 2 || count > len / stride);
            assert!(ctxt.offset == 0);
        }
    }
}

//@ harness r_array_iter kind=bounded:16 fns=ReadArray::iter,ReadArrayIter::next,ReadArrayIter::size_hint,ReadArray::to_vec
#[kani::proof]
#[kani::unwind(10)]
fn r_array_iter() {
    let (buf, len) = any_buf();
    let scope = ReadScope::new(&buf[..len]);
    let mut ctxt = scope.ctxt();
    let count: usize = kani::any();
    kani::assume(count <= 8);
    if let Ok(a) = ctxt.read_array::<U16Be>(count) {
        let it = a.iter();
        assert!(it.size_hint() == (count, Some(count)));
        let mut n = 0usize;
        for v in it {
            assert!(n < count);
            assert!(Some(v) == a.get_item(n));
            n += 1;
        }
        assert!(n == count);
        let mut m = 0usize;
        for r in a.iter_res() {
            assert!(r.ok() == a.get_item(m));
            m += 1;
        }
        assert!(m == count);
    }
}

//@ harness r_bsearch kind=bounded:8elems fns=ReadArray::binary_search_by
#[kani::proof]
#[kani::unwind(10)]
fn r_bsearch() {
    let (buf, len) = any_buf();
    let scope = ReadScope::new(&buf[..len]);
    let mut ctxt = scope.ctxt();
    let count: usize = kani::any();
    kani::assume(count <= 8);
    if let Ok(a) = ctxt.read_array::<U16Be>(count) {
        let key: u16 = kani::any();
        // sortedness is the documented precondition of binary search
        let mut prev = 0u16;
        for m in 0..count {
            let v = a.get_item(m).unwrap();
            kani::assume(m == 0 || prev <= v);
            prev = v;
        }
        let m: usize = kani::any();
        kani::assume(m < count);
        let vm = a.get_item(m).unwrap();
        match a.binary_search_by(|x| x.cmp(&key)) {
            Ok(k) => {
                assert!(k < count, "found index inside the window");
                assert!(a.get_item(k) == Some(key));
            }
            Err(k) => {
                assert!(k <= count);
                assert!(vm != key, "Err only when no element of the window compares Equal");
                assert!((m < k) == (vm < key), "insertion point splits the window");
            }
        }
    } else {
        assert!(count * 2 > len);
    }
}

//@ harness r_array_dep kind=bounded:16 fns=ReadCtxt::read_array_dep,ReadArray::read_item,ReadArrayDepIter::next
#[kani::proof]
fn r_array_dep() {
    let (buf, len) = any_buf();
    let scope = ReadScope::new(&buf[..len]);
    let mut ctxt = scope.ctxt();
    let count: usize = kani::any();
    match ctxt.read_array_dep::<U32Be>(count, ()) {
        Ok(a) => {
            assert!(count <= len / 4);
            let i: usize = kani::any();
            match a.read_item(i) {
                Ok(v) => {
                    assert!(i < count);
                    assert!(v == ((buf[4 * i] as u32) << 24) + ((buf[4 * i + 1] as u32) << 16) + ((buf[4 * i + 2] as u32) << 8) + buf[4 * i + 3] as u32);
                }
                Err(e) => assert!(i >= count && e == ParseError::BadIndex),
            }
        }
        Err(_) => assert!(count > len / 4),
    }
}

//@ harness r_upto_hack kind=bounded:16 fns=ReadCtxt::read_array_upto_hack
#[kani::proof]
fn r_upto_hack() {
    let (buf, len) = any_buf();
    let scope = ReadScope::new(&buf[..len]);
    let mut ctxt = scope.ctxt();
    let skip: usize = kani::any();
    if ctxt.read_slice(skip).is_err() {
        return;
    }
    let count: usize = kani::any();
    let a = ctxt.read_array_upto_hack::<U16Be>(count).unwrap();
    let avail = (len - skip) / 2;
    assert!(a.len() == if count < avail { count } else { avail });
    assert!(ctxt.offset == skip + 2 * a.len());
}

//@ harness r_nibble kind=bounded:8 fns=ReadCtxt::read_until_nibble
#[kani::proof]
#[kani::unwind(10)]
fn r_nibble() {
    let buf: [u8; 8] = kani::any();
    let len: usize = kani::any();
    kani::assume(len <= 8);
    let scope = ReadScope::new(&buf[..len]);
    let mut ctxt = scope.ctxt();
    let nib: u8 = kani::any();
    match ctxt.read_until_nibble(nib) {
        Ok(s) => {
            let n = s.len();
            assert!(n >= 1 && n <= len && ctxt.offset == n);
            let last = s[n - 1];
            assert!((last >> 4) == nib || (last & 0xF) == nib);
            let k: usize = kani::any();
            kani::assume(k < n - 1);
            assert!((s[k] >> 4) != nib && (s[k] & 0xF) != nib, "stops at the FIRST byte containing the nibble");
        }
        Err(_) => {
            assert!(ctxt.offset == 0);
            let k: usize = kani::any();
            kani::assume(k < len);
            assert!((buf[k] >> 4) != nib && (buf[k] & 0xF) != nib);
        }
    }
}

//@ harness r_cow kind=bounded:16 fns=ReadArrayCow::len,ReadArrayCow::get_item,ReadArrayCow::read_item,ReadArrayCowIter::next
#[kani::proof]
#[kani::unwind(6)]
fn r_cow() {
    let (buf, len) = any_buf();
    let scope = ReadScope::new(&buf[..len]);
    let mut ctxt = scope.ctxt();
    let count: usize = kani::any();
    kani::assume(count <= 4);
    if let Ok(a) = ctxt.read_array::<U16Be>(count) {
        let cow = ReadArrayCow::Borrowed(a.clone());
        let i: usize = kani::any();
        assert!(cow.len() == count);
        assert!(cow.get_item(i) == a.get_item(i));
        assert!(cow.read_item(i).ok() == a.get_item(i));
        assert!(cow.check_index(i).is_ok() == (i < count));
        let mut n = 0;
        for v in cow.iter() {
            assert!(Some(v) == a.get_item(n));
            n += 1;
        }
        assert!(n == count);
    }
}

//@ harness r_scope_offsets kind=bounded:16 fns=ReadScope::offset,ReadScope::offset_length,ReadCtxt::scope
#[kani::proof]
fn r_scope_offsets() {
    let (buf, len) = any_buf();
    let scope = ReadScope::new(&buf[..len]);
    let off: usize = kani::any();
    let n: usize = kani::any();
    let s = scope.offset(off);
    let k: usize = kani::any();
    if off <= len {
        assert!(s.data().len() == len - off);
        if k < len - off {
            assert!(s.data()[k] == buf[off + k]);
        }
    } else {
        assert!(s.data().is_empty());
    }
    match scope.offset_length(off, n) {
        Ok(w) => {
            assert!(w.data().len() == n);
            if n > 0 {
                assert!(off < len && n <= len - off);
                if k < n {
                    assert!(w.data()[k] == buf[off + k]);
                }
            }
        }
        Err(_) => assert!(off >= len || n > len - off),
    }
}

// binary search on a STRIDED array (stride > element size): probes must use the stride, like get_item does
//@ harness r_bsearch_stride kind=bounded:4elems fns=ReadArray::binary_search_by,ReadCtxt::read_array_stride
#[kani::proof]
#[kani::unwind(8)]
fn r_bsearch_stride() {
    let (buf, len) = any_buf();
    let scope = ReadScope::new(&buf[..len]);
    let mut ctxt = scope.ctxt();
    let count: usize = kani::any();
    let stride: usize = kani::any();
    kani::assume(count <= 4 && stride >= 2 && stride <= 4);
    if let Ok(a) = ctxt.read_array_stride::<U16Be>(count, stride) {
        let key: u16 = kani::any();
        let mut prev = 0u16;
        for m in 0..count {
            let v = a.get_item(m).unwrap();
            kani::assume(m == 0 || prev < v);
            prev = v;
        }
        let m: usize = kani::any();
        kani::assume(m < count);
        let vm = a.get_item(m).unwrap();
        match a.binary_search_by(|x| x.cmp(&key)) {
            Ok(k) => assert!(k < count && a.get_item(k) == Some(key), "binary search agrees with indexed access"),
            Err(k) => {
                assert!(k <= count);
                assert!(vm != key, "Err only when no element of the window compares Equal");
            }
        }
    }
}
