//@ unit C03_cache
//@ props C03 C05 C02 C01 C06
//@ module src/font.rs
//@ strength complete for LazyLoad::get_or_load (loop-free state machine, symbolic loader outcome); bounded for the glyph memo (one earlier call with any arguments on a Font built from a 32-byte cmap)
//@ unverified lookup-list cache (get_lookups_cache_index: HashMap/BTreeMap, out of reach - key omits the feature-variation substitution, known from reading), ReadCache keyed by scope base, LayoutCacheData caches; byte-identical determinism of whole outputs (no contract shape)

//@ harness lazy_load kind=complete fns=LazyLoad::get_or_load props=C03
#[kani::proof]
fn lazy_load() {
    let outcome: Result<Option<u16>, ParseError> = if kani::any() { Ok(if kani::any() { Some(kani::any()) } else { None }) } else { Err(ParseError::BadValue) };
    let mut calls = 0u8;
    let mut slot: LazyLoad<u16> = LazyLoad::NotLoaded;
    let r1 = slot.get_or_load(|| { calls += 1; outcome.clone() });
    assert!(r1 == outcome && calls == 1, "first use calls the loader and returns its result");
    match &outcome {
        Ok(v) => assert!(matches!(&slot, LazyLoad::Loaded(x) if x == v), "a successful load is stored"),
        Err(_) => assert!(matches!(slot, LazyLoad::NotLoaded), "a failed load leaves the slot empty (it is retried)"),
    }
    // second use with a loader that would answer differently: the stored value wins and the loader is not called
    let other: Option<u16> = kani::any();
    let mut calls2 = 0u8;
    let r2 = slot.get_or_load(|| { calls2 += 1; Ok(other) });
    if outcome.is_ok() {
        assert!(r2 == outcome && calls2 == 0, "a loaded slot answers from the stored value only");
    } else {
        assert!(r2 == Ok(other) && calls2 == 1);
    }
}

pub(crate) struct NoTables;
impl FontTableProvider for NoTables {
    fn table_data(&self, _tag: u32) -> Result<Option<Cow<'_, [u8]>>, ParseError> { Ok(None) }
    fn has_table(&self, _tag: u32) -> bool { false }
    fn table_tags(&self) -> Option<Vec<u32>> { None }
}

pub(crate) fn test_font() -> Font<NoTables> {
    // cmap format 4 sub-table mapping U+25CC -> glyph 5 and the mandatory 0xFFFF segment
    let cmap: [u8; 32] = [0, 4, 0, 32, 0, 0, 0, 4, 0, 4, 0, 1, 0, 0, 0x25, 0xCC, 0xFF, 0xFF, 0, 0, 0x25, 0xCC, 0xFF, 0xFF, 0xDA, 0x39, 0, 1, 0, 0, 0, 0];
    Font {
        font_table_provider: NoTables,
        head_table: HeadTable { major_version: 1, minor_version: 0, font_revision: crate::tables::Fixed::from_raw(0), check_sum_adjustment: 0, magic_number: 0x5F0F3CF5, flags: 0, units_per_em: 1000, created: 0, modified: 0, x_min: 0, y_min: 0, x_max: 0, y_max: 0, mac_style: crate::tables::MacStyle::empty(), lowest_rec_ppem: 0, font_direction_hint: 0, index_to_loc_format: crate::tables::IndexToLocFormat::Short, glyph_data_format: 0 },
        cmap_table: Box::new(cmap),
        maxp_table: MaxpTable { num_glyphs: 10, version1_sub_table: None },
        hmtx_table: Box::new([0x02, 0x58, 0, 10, 0, 0, 0, 0, 0, 0, 0, 0, 0, 0, 0, 0, 0, 0, 0, 0, 0, 0]), // one long metric (advance 600, lsb 10) + 9 side bearings
        hhea_table: HheaTable { ascender: 0, descender: 0, line_gap: 0, advance_width_max: 0, min_left_side_bearing: 0, min_right_side_bearing: 0, x_max_extent: 0, caret_slope_rise: 0, caret_slope_run: 0, caret_offset: 0, num_h_metrics: 1 },
        vmtx_table: LazyLoad::NotLoaded,
        vhea_table: LazyLoad::NotLoaded,
        cmap_subtable_offset: 0,
        cmap_subtable_encoding: Encoding::Unicode,
        gdef_cache: LazyLoad::NotLoaded,
        morx_cache: LazyLoad::NotLoaded,
        gsub_cache: LazyLoad::NotLoaded,
        gpos_cache: LazyLoad::NotLoaded,
        kern_cache: LazyLoad::NotLoaded,
        os2_us_first_char_index: LazyLoad::NotLoaded,
        glyph_cache: GlyphCache::new(),
        glyph_table_flags: GlyphTableFlags::GLYF,
        embedded_image_filter: GlyphTableFlags::empty(),
        embedded_images: LazyLoad::NotLoaded,
        axis_count: 0,
    }
}

fn any_vs() -> Option<VariationSelector> {
    match kani::any::<u8>() % 3 { 0 => None, 1 => Some(VariationSelector::VS15), _ => Some(VariationSelector::VS16) }
}
fn any_mp() -> MatchingPresentation { if kani::any() { MatchingPresentation::Required } else { MatchingPresentation::NotRequired } }

//@ harness glyph_memo kind=bounded:1earlier_call fns=Font::lookup_glyph_index,GlyphCache::get,GlyphCache::put,Font::map_unicode_to_glyph,Font::lookup_glyph_index_with_variation,Font::resolve_default_presentation,Font::map_glyph props=C03 timeout=1500 tier=thorough
#[kani::proof]
#[kani::unwind(6)]
fn glyph_memo() {
    // C03: a probe returns the same value whatever other query was made before, and the same value as on a fresh font
    let (mp1, vs1) = (any_mp(), any_vs());
    let (mp2, vs2) = (any_mp(), any_vs());
    let mut used = test_font();
    let _earlier = used.lookup_glyph_index(DOTTED_CIRCLE, mp1, vs1);
    let probe = used.lookup_glyph_index(DOTTED_CIRCLE, mp2, vs2);
    let mut fresh = test_font();
    let want = fresh.lookup_glyph_index(DOTTED_CIRCLE, mp2, vs2);
    assert!(probe == want, "the dotted-circle memo must not leak the arguments of an earlier call");
    assert!(want.0 == 5 || (mp2 == MatchingPresentation::Required && want.1 == VariationSelector::VS16 && want.0 == 0), "U+25CC maps to glyph 5 (or 0 when an emoji presentation is required and absent)");
}

//@ harness glyph_memo_selector kind=bounded:1earlier_call fns=Font::lookup_glyph_index,GlyphCache::get,GlyphCache::put,Font::map_unicode_to_glyph,Font::resolve_default_presentation props=C03 timeout=900
#[kani::proof]
#[kani::unwind(6)]
fn glyph_memo_selector() {
    // quick-tier variant of glyph_memo: presentation matching fixed to NotRequired, variation selectors of both calls symbolic
    let (vs1, vs2) = (any_vs(), any_vs());
    let mut used = test_font();
    let _earlier = used.lookup_glyph_index(DOTTED_CIRCLE, MatchingPresentation::NotRequired, vs1);
    let probe = used.lookup_glyph_index(DOTTED_CIRCLE, MatchingPresentation::NotRequired, vs2);
    let want_selector = match vs2 { Some(v) => v, None => VariationSelector::VS15 };
    assert!(probe == (5, want_selector), "glyph 5 with the selector THIS call asked for (text presentation by default)");
}

//@ harness legacy_symbol_code kind=complete fns=Font::legacy_symbol_char_code props=C01,C06,C02
#[kani::proof]
fn legacy_symbol_code() {
    // Windows Symbol cmap: a character outside U+F000..U+F0FF is looked up at  ch - 0x20 + OS/2.usFirstCharIndex  (any u16 from the
    // font, any character from the text): the arithmetic must not panic; for the usual usFirstCharIndex = 0xF020 it is ch + 0xF000
    let mut font = test_font();
    let first: u16 = kani::any();
    font.os2_us_first_char_index = LazyLoad::Loaded(Some(first));
    let ch: char = kani::any();
    let code = font.legacy_symbol_char_code(ch);
    if first == 0xF020 && (ch as u32) < 0x100 { assert!(code == ch as u32 + 0xF000, "single-byte text maps into the symbol range"); }
    if first == 0xF020 && ch >= '\u{F000}' && ch <= '\u{F0FF}' { assert!(code == ch as u32, "characters already in the symbol range are kept"); }
}
