//@ unit C01_cff
//@ props C01
//@ module src/cff.rs
//@ strength bounded(a custom charset of 2 ranges, formats 1 and 2, every first / nLeft / SID / glyph id value)
//@ unverified Charset reading (read_range_array), Encoding, FDSelect look-ups
// CFF charset look-ups on font-controlled ranges: any first / nLeft values must give a glyph / SID or None - never a panic.

fn charset2<'a>(r: [(u16, u16); 2]) -> CustomCharset<'a> {
    CustomCharset::Format2 { ranges: ReadArrayCow::Owned(vec![Range { first: r[0].0, n_left: r[0].1 }, Range { first: r[1].0, n_left: r[1].1 }]) }
}
fn charset1<'a>(r: [(u16, u8); 2]) -> CustomCharset<'a> {
    CustomCharset::Format1 { ranges: ReadArrayCow::Owned(vec![Range { first: r[0].0, n_left: r[0].1 }, Range { first: r[1].0, n_left: r[1].1 }]) }
}

//@ harness charset_lookups kind=bounded:2ranges fns=CustomCharset::sid_to_gid,CustomCharset::id_for_glyph,CustomCharset::glyph_id_for_sid_in_ranges,CustomCharset::id_for_glyph_in_ranges timeout=900
#[kani::proof]
#[kani::unwind(5)]
fn charset_lookups() {
    let wide: bool = kani::any();
    let a: (u16, u16) = (kani::any(), kani::any());
    let b: (u16, u16) = (kani::any(), kani::any());
    let cs = if wide { charset2([a, b]) } else { charset1([(a.0, a.1 as u8), (b.0, b.1 as u8)]) };
    let sid: u16 = kani::any();
    let gid: u16 = kani::any();
    if let Some(g) = cs.sid_to_gid(sid) {
        // glyph 1 is the first glyph of the first range (glyph 0 is .notdef and not in the charset)
        let n0 = if wide { a.1 as u32 } else { (a.1 as u8) as u32 };
        if a.0 <= sid && (sid as u32) <= a.0 as u32 + n0 { assert!(g as u32 == 1 + (sid - a.0) as u32, "position inside the first range"); }
    }
    let _ = cs.id_for_glyph(gid);
}

//@ harness charset_iter kind=bounded:2ranges_first_3_elements fns=CustomCharset::iter,Range::iter timeout=900
#[kani::proof]
#[kani::unwind(6)]
fn charset_iter() {
    let wide: bool = kani::any();
    let a: (u16, u16) = (kani::any(), kani::any());
    let b: (u16, u16) = (kani::any(), kani::any());
    let cs = if wide { charset2([a, b]) } else { charset1([(a.0, a.1 as u8), (b.0, b.1 as u8)]) };
    let mut it = cs.iter();
    assert!(it.next() == Some(0), ".notdef first");
    assert!(it.next() == Some(a.0), "then the first SID of the first range");
    let _ = it.next();
}
