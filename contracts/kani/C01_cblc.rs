//@ unit C01_cblc
//@ props C01
//@ module src/bitmap/cbdt.rs
//@ strength bounded(one strike with one index sub-table of each format 1-5 and 2 glyphs; every offset / size / glyph-id value of the sub-table symbolic; 16-byte CBDT)
//@ unverified CBLCTable::read / find_strike (strike selection), the image-format readers behind ImageFormat::read_dep for data that is present, PNG / bitmap decoding in bitmap.rs
// Embedded bitmap look-up (C01: "embedded images ... never panics"): MatchingStrike::bitmap turns font-controlled offsets into a window
// of the CBDT/EBDT table. Any values in the index sub-table must give a bitmap, `None` or an error - never a panic.
use crate::bitmap::BitDepth;

fn line() -> SbitLineMetrics { SbitLineMetrics { ascender: 0, descender: 0, width_max: 0, caret_slope_numerator: 0, caret_slope_denominator: 0, caret_offset: 0, min_origin_sb: 0, min_advance_sb: 0, max_before_bl: 0, min_after_bl: 0, pad1: 0, pad2: 0 } }
fn big() -> BigGlyphMetrics { BigGlyphMetrics { height: 1, width: 1, hori_bearing_x: 0, hori_bearing_y: 0, hori_advance: 0, vert_bearing_x: 0, vert_bearing_y: 0, vert_advance: 0 } }

fn lookup<'a>(sub_table: IndexSubTable<'a>, record_bytes: &'a [u8; 8], glyph_id: u16) {
    // the record: firstGlyphIndex, lastGlyphIndex (what find_strike matched the glyph against), additionalOffset
    let records = ReadScope::new(record_bytes).ctxt().read_array::<IndexSubTableRecord>(1).unwrap();
    let first = ((record_bytes[0] as u16) << 8) | record_bytes[1] as u16;
    let last = ((record_bytes[2] as u16) << 8) | record_bytes[3] as u16;
    kani::assume(first <= glyph_id && glyph_id <= last); // established by find_strike
    let size = BitmapSize {
        inner: BitmapInfo { hori: line(), vert: line(), start_glyph_index: first, end_glyph_index: last, ppem_x: 16, ppem_y: 16, bit_depth: BitDepth::Eight, flags: 1 },
        index_sub_table_records: records,
        index_sub_tables: vec![sub_table],
    };
    let data: [u8; 16] = kani::any();
    let cbdt = CBDTTable { major_version: 3, minor_version: 0, data: ReadScope::new(&data) };
    let strike = MatchingStrike { glyph_id, bitmap_size: &size, index_subtable_index: 0 };
    let _ = strike.bitmap(&cbdt);
}

//@ harness cblc_format1_3 kind=bounded:2glyphs fns=MatchingStrike::bitmap timeout=900
#[kani::proof]
#[kani::unwind(20)]
fn cblc_format1_3() {
    let rec: [u8; 8] = kani::any();
    let gid: u16 = kani::any();
    let offs: [u8; 12] = kani::any();
    if kani::any() {
        let offsets = ReadScope::new(&offs).ctxt().read_array::<U32Be>(3).unwrap();
        lookup(IndexSubTable::Format1 { image_format: ImageFormat::Format17, image_data_offset: kani::any(), offsets }, &rec, gid);
    } else {
        let offsets = ReadScope::new(&offs[..6]).ctxt().read_array::<U16Be>(3).unwrap();
        lookup(IndexSubTable::Format3 { image_format: ImageFormat::Format17, image_data_offset: kani::any(), offsets }, &rec, gid);
    }
}

//@ harness cblc_format2 kind=bounded:2glyphs fns=MatchingStrike::bitmap timeout=900
#[kani::proof]
#[kani::unwind(20)]
fn cblc_format2() {
    let rec: [u8; 8] = kani::any();
    let gid: u16 = kani::any();
    lookup(IndexSubTable::Format2 { image_format: ImageFormat::Format5, image_data_offset: kani::any(), image_size: kani::any(), big_metrics: big() }, &rec, gid);
}

//@ harness cblc_format5 kind=bounded:2glyphs fns=MatchingStrike::bitmap timeout=900
#[kani::proof]
#[kani::unwind(4)]
fn cblc_format5() {
    let rec: [u8; 8] = kani::any();
    let gid: u16 = kani::any();
    let ids: [u8; 4] = kani::any();
    let glyph_id_array = ReadScope::new(&ids).ctxt().read_array::<U16Be>(2).unwrap();
    lookup(IndexSubTable::Format5 { image_format: ImageFormat::Format5, image_data_offset: kani::any(), image_size: kani::any(), big_metrics: big(), glyph_id_array }, &rec, gid);
}

//@ harness cblc_format4 kind=bounded:2glyphs fns=MatchingStrike::bitmap timeout=900
#[kani::proof]
#[kani::unwind(20)]
fn cblc_format4() {
    let rec: [u8; 8] = kani::any();
    let gid: u16 = kani::any();
    let pairs: [u8; 12] = kani::any();
    let glyph_array = ReadScope::new(&pairs).ctxt().read_array::<GlyphOffsetPair>(3).unwrap();
    lookup(IndexSubTable::Format4 { image_format: ImageFormat::Format17, image_data_offset: kani::any(), glyph_array }, &rec, gid);
}
