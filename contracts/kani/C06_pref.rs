//@ unit C06_pref
//@ props C06
//@ module src/font.rs
//@ strength bounded(<=3 encoding records, platform/encoding ids fully symbolic)
//@ note the documented preference order: Windows UCS-4 (3/10), Windows BMP (3/1), Unicode UCS-4 (0/4), any Unicode platform record,
//@ note Windows Symbol (3/0), Macintosh Roman (1/0), Windows Big5 (3/4); within a rank the first record in table order.

fn rank(p: u16, e: u16) -> u8 {
    match (p, e) {
        (3, 10) => 0,
        (3, 1) => 1,
        (0, 4) => 2,
        (0, _) => 3,
        (3, 0) => 4,
        (1, 0) => 5,
        (3, 4) => 6,
        _ => 255,
    }
}

//@ harness cmap_preference kind=bounded:3records fns=find_good_cmap_subtable,Cmap::find_subtable,Cmap::find_subtable_for_platform,Cmap::read timeout=600
#[kani::proof]
#[kani::unwind(5)]
fn cmap_preference() {
    let n: u16 = 3;
    let recs: [(u16, u16); 3] = kani::any();
    let mut b = [0u8; 28];
    b[3] = n as u8;
    let mut i = 0;
    while i < 3 {
        let at = 4 + 8 * i;
        b[at] = (recs[i].0 >> 8) as u8; b[at + 1] = recs[i].0 as u8;
        b[at + 2] = (recs[i].1 >> 8) as u8; b[at + 3] = recs[i].1 as u8;
        b[at + 7] = i as u8; // offset field identifies the record
        i += 1;
    }
    let cmap = ReadScope::new(&b).read::<Cmap<'_>>().unwrap();
    let best = {
        let mut best: Option<usize> = None;
        let mut i = 0;
        while i < 3 {
            let r = rank(recs[i].0, recs[i].1);
            if r != 255 && (best.is_none() || r < rank(recs[best.unwrap()].0, recs[best.unwrap()].1)) { best = Some(i); }
            i += 1;
        }
        best
    };
    match find_good_cmap_subtable(&cmap) {
        Some((enc, rec)) => {
            let k = best.unwrap();
            assert!(rec.offset as usize == k, "the highest-ranked supported record (first in table order within a rank) is chosen");
            let r = rank(recs[k].0, recs[k].1);
            let want = match r { 0 | 1 | 2 | 3 => Encoding::Unicode, 4 => Encoding::Symbol, 5 => Encoding::AppleRoman, _ => Encoding::Big5 };
            assert!(enc == want);
        }
        None => assert!(best.is_none(), "None only when no record is supported"),
    }
}
