//@ unit C17_thai
//@ props C17
//@ module src/scripts/thai_lao.rs
//@ strength bounded(input <= 2 chars drawn from a 6-character representative alphabet: SARA AM, MAI EK, KO KAI, Lao AM, NIKHAHIT, 'x'); the final sort_by_modified_combining_class call is STUBBED by the identity (std sort is out of CBMC's reach, measured)
//@ unverified thai_lao::reorder_marks first loop (SARA AM split + NIKHAHIT rotation): harness sara_am kept but switched off - Vec::insert + slice::rotate_right on even 2 characters from a 6-letter alphabet does not finish in 500 s under CBMC (measured); Verus cannot take cs[j..=i].rotate_right(1)
//@ unverified sort_by_modified_combining_class and arabic::reorder_marks (std stable sort + split_mut closure: out of reach, measured in the design phase)

fn no_sort(_cs: &mut [char]) {}

fn count(s: &[char], c: char) -> usize {
    let mut n = 0;
    let mut i = 0;
    while i < s.len() { if s[i] == c { n += 1; } i += 1; }
    n
}

//@ harness sara_am kind=bounded:2chars fns=reorder_marks tier=off timeout=600
#[kani::proof]
#[kani::unwind(6)]
#[kani::stub(crate::unicode::mcc::sort_by_modified_combining_class, no_sort)]
fn sara_am() {
    // representative alphabet (fully symbolic chars make the std rotate/insert code intractable: measured 700 s timeout)
    let sel: [u8; 2] = kani::any();
    let alpha = ['\u{0E33}', '\u{0E48}', '\u{0E01}', '\u{0EB3}', '\u{0E4D}', 'x'];
    kani::assume(sel[0] < 6 && sel[1] < 6);
    let inp: [char; 2] = [alpha[sel[0] as usize], alpha[sel[1] as usize]];
    let n: usize = kani::any();
    kani::assume(n <= 2);
    let mut cs: Vec<char> = inp[..n].to_vec();
    reorder_marks(&mut cs);
    // content: every character is kept, except that a SARA AM (Thai U+0E33 / Lao U+0EB3) may be replaced by NIKHAHIT + SARA AA
    let splits_thai = count(&inp[..n], '\u{0E33}') - count(&cs, '\u{0E33}');
    let splits_lao = count(&inp[..n], '\u{0EB3}') - count(&cs, '\u{0EB3}');
    assert!(count(&cs, '\u{0E33}') <= count(&inp[..n], '\u{0E33}') && count(&cs, '\u{0EB3}') <= count(&inp[..n], '\u{0EB3}'));
    assert!(cs.len() == n + splits_thai + splits_lao);
    let p: char = kani::any();
    let extra = match p {
        '\u{0E4D}' | '\u{0E32}' => splits_thai,
        '\u{0ECD}' | '\u{0EB2}' => splits_lao,
        _ => 0,
    };
    if p != '\u{0E33}' && p != '\u{0EB3}' {
        assert!(count(&cs, p) == count(&inp[..n], p) + extra, "content is preserved up to the documented AM split");
    }
    // the first SARA AM is always split, and its NIKHAHIT is moved before the above-base marks that precede it, nothing else moves
    if n >= 1 && inp[0] == '\u{0E33}' {
        assert!(cs[0] == '\u{0E4D}' && cs[1] == '\u{0E32}');
    }
    if n >= 2 && inp[1] == '\u{0E33}' && inp[0] != '\u{0E33}' && inp[0] != '\u{0EB3}' {
        if is_abovebase_mark(inp[0]) {
            assert!(cs[0] == '\u{0E4D}' && cs[1] == inp[0] && cs[2] == '\u{0E32}', "NIKHAHIT rotated before the tone mark");
        } else {
            assert!(cs[0] == inp[0] && cs[1] == '\u{0E4D}' && cs[2] == '\u{0E32}', "a base character keeps its position");
        }
    }
}

//@ harness am_tables kind=complete fns=split_am_vowel,is_abovebase_mark
#[kani::proof]
fn am_tables() {
    let c: char = kani::any();
    match split_am_vowel(c) {
        Some((a, b)) => assert!((c == '\u{0E33}' && a == '\u{0E4D}' && b == '\u{0E32}') || (c == '\u{0EB3}' && a == '\u{0ECD}' && b == '\u{0EB2}')),
        None => assert!(c != '\u{0E33}' && c != '\u{0EB3}'),
    }
    if is_abovebase_mark(c) {
        assert!((c >= '\u{0E00}' && c <= '\u{0E7F}') || (c >= '\u{0E80}' && c <= '\u{0EFF}'), "only Thai / Lao marks");
        assert!(split_am_vowel(c).is_none());
    }
}
