//@ unit L_ctor
//@ props C04 C02
//@ module src/layout.rs
//@ strength (no harness) constructors for layout structures with private fields, used by the gsub harnesses of unit C04_subst
use std::rc::Rc;

pub(crate) fn coverage_of(glyphs: Vec<u16>) -> Rc<Coverage> { Rc::new(Coverage::Format1 { glyph_array: glyphs }) }
pub(crate) fn mk_multiple(covered: Vec<u16>, seqs: Vec<Vec<u16>>) -> MultipleSubst {
    MultipleSubst { coverage: coverage_of(covered), sequences: seqs.into_iter().map(|substitute_glyphs| SequenceTable { substitute_glyphs }).collect() }
}
pub(crate) fn mk_ligature_subst(first: u16, ligature_glyph: u16, component_glyphs: Vec<u16>) -> LigatureSubst {
    LigatureSubst { coverage: coverage_of(vec![first]), ligaturesets: vec![LigatureSet { ligatures: vec![Ligature { ligature_glyph, component_glyphs }] }] }
}
