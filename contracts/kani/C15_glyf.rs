//@ unit C15_glyf
//@ props C15 C16 C09
//@ module src/tables/glyf.rs
//@ strength complete for a single component (all flag/argument/scale combinations); bounded(2 minimal components, instructions <= 2 bytes) for the instruction bookkeeping of the whole glyph
//@ unverified SimpleGlyph write/read round trip, glyf/loca table level
use crate::binary::write::{WriteBinary, WriteBuffer, WriteContext};

fn any_component(flag_bits: u16) -> CompositeGlyphComponent {
    // a VALID component value: argument kinds and the optional scale agree with the flags (as the reader produces them)
    let flags = CompositeGlyphFlag::from_bits_truncate(flag_bits);
    let arg = |_: u8| match (flags.arg_1_and_2_are_words(), flags.args_are_xy_values()) {
        (true, true) => CompositeGlyphArgument::I16(kani::any()),
        (true, false) => CompositeGlyphArgument::U16(kani::any()),
        (false, true) => CompositeGlyphArgument::I8(kani::any()),
        (false, false) => CompositeGlyphArgument::U8(kani::any()),
    };
    let f = || F2Dot14::from_raw(kani::any());
    let scale = if flags.we_have_a_scale() { Some(CompositeGlyphScale::Scale(f())) }
        else if flags.we_have_an_x_and_y_scale() { Some(CompositeGlyphScale::XY { x_scale: f(), y_scale: f() }) }
        else if flags.we_have_a_two_by_two() { Some(CompositeGlyphScale::Matrix([[f(), f()], [f(), f()]])) }
        else { None };
    CompositeGlyphComponent { flags, glyph_index: kani::any(), argument1: arg(0), argument2: arg(1), scale }
}

fn component_case(flag_bits: u16) {
    let c = any_component(flag_bits);
    let mut w = WriteBuffer::new();
    CompositeGlyphComponent::write(&mut w, c.clone()).unwrap();
    let out = w.bytes();
    let mut ctxt = ReadScope::new(out).ctxt();
    let flags = ctxt.read::<CompositeGlyphFlag>().unwrap();
    assert!(flags == c.flags);
    let back = ctxt.read_dep::<CompositeGlyphComponent>(flags).unwrap();
    assert!(back.glyph_index == c.glyph_index && back.argument1 == c.argument1 && back.argument2 == c.argument2 && back.scale == c.scale, "component survives the round trip");
    assert!(!ctxt.bytes_available(), "the reader consumes exactly what the writer produced");
}

// every valid component LAYOUT: 4 argument kinds x 4 scale kinds = 16 concrete selector patterns, each with the layout-neutral
// flag bits all clear and all set (ROUND_XY_TO_GRID, MORE_COMPONENTS, WE_HAVE_INSTRUCTIONS, USE_MY_METRICS, OVERLAP_COMPOUND,
// SCALED/UNSCALED_COMPONENT_OFFSET); field values fully symbolic. Symbolic flag bits make CBMC explore every write-length
// combination at once and exhaust 16 GB (measured), hence the explicit enumeration.
const NEUTRAL: u16 = 0x0004 | 0x0020 | 0x0100 | 0x0200 | 0x0400 | 0x0800 | 0x1000;
fn scale_cases(args: u16) {
    component_case(args);
    component_case(args | 0x0008 | NEUTRAL);
    component_case(args | 0x0040);
    component_case(args | 0x0080 | NEUTRAL);
}
//@ harness component_bytes kind=complete fns=CompositeGlyphComponent::read_dep,CompositeGlyphComponent::write,CompositeGlyphArgument::read_dep,CompositeGlyphArgument::write,CompositeGlyphScale::write
#[kani::proof]
fn component_bytes() { scale_cases(0x0000); scale_cases(0x0002 | NEUTRAL); }
//@ harness component_words kind=complete fns=CompositeGlyphComponent::read_dep,CompositeGlyphComponent::write,CompositeGlyphArgument::read_dep,CompositeGlyphArgument::write,CompositeGlyphScale::write
#[kani::proof]
fn component_words() { scale_cases(0x0001 | NEUTRAL); scale_cases(0x0003); }

fn composite_instructions_case<const I0: bool, const I1: bool, const N: usize>() {
    // two minimal components; WE_HAVE_INSTRUCTIONS symbolic on each: the instructions are written and read back whenever ANY
    // component carries the flag (the reader honours it on any component)
    let (c0, c1) = (any_component(0x0020 | if I0 { 0x0100 } else { 0 }), any_component(if I1 { 0x0100 } else { 0 }));
    let (i0, i1) = (I0, I1);
    let instr: [u8; 2] = kani::any();
    let n_instr: usize = N; // concrete per case: a symbolic write length exhausts CBMC's memory (measured)
    let g = CompositeGlyph {
        bounding_box: BoundingBox { x_min: kani::any(), y_min: kani::any(), x_max: kani::any(), y_max: kani::any() },
        glyphs: vec![c0.clone(), c1.clone()],
        instructions: &instr[..n_instr],
        phantom_points: None,
    };
    let bbox = g.bounding_box;
    let mut w = WriteBuffer::new();
    CompositeGlyph::write(&mut w, g).unwrap();
    let out = w.bytes();
    assert!(out[0] == 0xFF && out[1] == 0xFF, "numberOfContours = -1 marks a composite glyph");
    match ReadScope::new(&out[2..]).read::<CompositeGlyph<'_>>() {
        Ok(g2) => {
            assert!(g2.bounding_box == bbox);
            assert!(g2.glyphs.len() == 2 && g2.glyphs[0] == c0 && g2.glyphs[1] == c1, "components survive the round trip");
            assert!(g2.instructions.len() == n_instr, "instructions survive the round trip");
            if n_instr >= 1 { assert!(g2.instructions[0] == instr[0]); }
            if n_instr == 2 { assert!(g2.instructions[1] == instr[1]); }
        }
        Err(_) => panic!("a written composite glyph must parse"),
    }
}


//@ harness composite_instr_first kind=bounded:2components fns=CompositeGlyph::read,CompositeGlyph::write,CompositeGlyphs::read,BoundingBox::write timeout=600
#[kani::proof]
#[kani::unwind(4)]
fn composite_instr_first() { composite_instructions_case::<true, false, 2>() }
//@ harness composite_instr_last kind=bounded:2components fns=CompositeGlyph::read,CompositeGlyph::write,CompositeGlyphs::read timeout=600
#[kani::proof]
#[kani::unwind(4)]
fn composite_instr_last() { composite_instructions_case::<false, true, 1>() }
//@ harness composite_instr_none kind=bounded:2components fns=CompositeGlyph::read,CompositeGlyph::write,CompositeGlyphs::read timeout=600
#[kani::proof]
#[kani::unwind(4)]
fn composite_instr_none() { composite_instructions_case::<false, false, 0>() }
