//@ unit C05_pos
//@ props C05 C02
//@ module src/glyph_position.rs
//@ strength bounded(run of 3 glyphs: a base followed by two marks anchored to it; advances and offsets of the first pass symbolic 16-bit values)
//@ note uses the Font literal of unit C03_cache (crate::font::verif_C03_cache::test_font) because GlyphLayout holds a &mut Font; position_marks itself does not touch the font
//@ unverified the first pass of glyph_positions (glyph_advance needs hmtx data), right-to-left runs, cursive chains (adjust_cursive_chain has no cycle guard: `TODO: prevent cycles` in the source - unbounded recursion on a cyclic attachment chain, known from reading)
use crate::gpos::{Info, Placement};
use crate::layout::Anchor;
use tinyvec::tiny_vec;

fn mk(gid: u16, placement: Placement) -> Info {
    let glyph = crate::gsub::RawGlyph { unicodes: tiny_vec![], glyph_index: gid, liga_component_pos: 0, glyph_origin: crate::gsub::GlyphOrigin::Direct, flags: crate::gsub::RawGlyphFlags::empty(), variation: None, extra_data: () };
    let mut infos = Info::init_from_glyphs(None, vec![glyph]);
    let mut i = infos.remove(0);
    i.placement = placement;
    i
}

//@ harness marks_ltr kind=bounded:3glyphs fns=GlyphLayout::position_marks,sum_advance timeout=900
#[kani::proof]
#[kani::unwind(6)]
fn marks_ltr() {
    let mut font = crate::font::verif_C03_cache::test_font();
    let a = Anchor { x: 0, y: 0 };
    let infos = [mk(1, Placement::None), mk(2, Placement::MarkAnchor(0, a, a)), mk(3, Placement::MarkAnchor(0, a, a))];
    let layout = GlyphLayout { font: &mut font, infos: &infos, direction: TextDirection::LeftToRight, vertical: false };
    let v: [i16; 12] = kani::any();
    let p = |k: usize| GlyphPosition::new(v[4 * k] as i32, v[4 * k + 1] as i32, v[4 * k + 2] as i32, v[4 * k + 3] as i32);
    let mut pos = [p(0), p(1), p(2)];
    let before = pos;
    layout.position_marks(&mut pos);
    assert!(pos[0] == before[0], "the base is not moved");
    // mark i ends at: its own anchor offset + the base's offset - the advances of every glyph from the base up to the mark
    assert!(pos[1].x_offset == before[1].x_offset + before[0].x_offset - before[0].hori_advance);
    assert!(pos[1].y_offset == before[1].y_offset + before[0].y_offset - before[0].vert_advance);
    assert!(pos[2].x_offset == before[2].x_offset + before[0].x_offset - (before[0].hori_advance + before[1].hori_advance), "a second mark also undoes the advance of the mark between it and the base");
    assert!(pos[2].y_offset == before[2].y_offset + before[0].y_offset - (before[0].vert_advance + before[1].vert_advance));
    assert!(pos[1].hori_advance == before[1].hori_advance && pos[2].hori_advance == before[2].hori_advance, "advances are untouched");
}

fn index_case(placement: Placement, k: usize) {
    let mut font = crate::font::verif_C03_cache::test_font();
    let infos = [mk(1, Placement::None), mk(2, placement)];
    let mut layout = GlyphLayout::new(&mut font, &infos, TextDirection::LeftToRight, false);
    match layout.glyph_positions() {
        Ok(p) => assert!(k < 2 && p.len() == 2, "an attachment inside the run is laid out"),
        Err(e) => assert!(k >= 2 && e == ParseError::BadIndex, "an attachment that refers outside the run is reported as BadIndex, never a panic"),
    }
}

//@ harness attachment_indices kind=bounded:2glyphs fns=GlyphLayout::glyph_positions,GlyphLayout::position_marks,GlyphLayout::adjust_cursive_connections,glyph_advance,glyph_info::advance timeout=900 props=C02,C05
#[kani::proof]
#[kani::unwind(6)]
fn attachment_indices() {
    // C02: every attachment in the returned run refers to a glyph inside the run; anything else is an error
    let k: usize = kani::any();
    let a = Anchor { x: kani::any(), y: kani::any() };
    match kani::any::<u8>() % 3 {
        0 => index_case(Placement::MarkOverprint(k), k),
        1 => index_case(Placement::MarkAnchor(k, a, a), k),
        _ => index_case(Placement::CursiveAnchor(k, kani::any(), a, a), k),
    }
}
