//@ unit C01_real
//@ props C01 C15
//@ strength proved-unbounded
//@ min-verified 2
//@ unverified Real::try_from -> f64 (str::parse), the nibble loop in TryFrom<&Real> (tinyvec iterator); Kani unit R_array::r_nibble decides read_until_nibble
// Verification unit C01_real (properties C01, C15): one nibble of a CFF DICT real number (Adobe TN#5176, Table 5 "Nibble Definitions")
// is appended to the text buffer: 0-9 digit, a '.', b 'E', c 'E-', e '-'; d and f are refused; the buffer is never overrun.
use vstd::prelude::*;
verus! {

//@ item src/error.rs | enum ParseError | derive=
//@ item src/cff.rs | const FLOAT_BUF_LEN

/// TN#5176 Table 5: the characters one nibble stands for
pub open spec fn nibble_text(n: u8) -> Seq<u8> {
    if n <= 9 { seq![(48 + n) as u8] } else if n == 10 { seq![46u8] } else if n == 11 { seq![69u8] } else if n == 12 { seq![69u8, 45u8] } else if n == 14 { seq![45u8] } else { Seq::empty() }
}
pub open spec fn nibble_valid(n: u8) -> bool { n <= 12 || n == 14 }

//@ fn src/cff.rs | parse_float_nibble
//@ ret r
//@ spec
    requires old(data)@.len() == FLOAT_BUF_LEN, *old(idx) <= FLOAT_BUF_LEN
    ensures
        final(data)@.len() == FLOAT_BUF_LEN, *final(idx) <= FLOAT_BUF_LEN,
        // success: exactly the nibble's characters are appended at the cursor, nothing else changes
        r is Ok ==> nibble_valid(nibble) && *final(idx) == *old(idx) + nibble_text(nibble).len()
            && final(data)@.subrange(*old(idx) as int, *final(idx) as int) == nibble_text(nibble)
            && (forall|k: int| 0 <= k < *old(idx) ==> final(data)@[k] == old(data)@[k]),
        // a valid nibble is refused only when its characters do not fit
        nibble_valid(nibble) && *old(idx) + nibble_text(nibble).len() <= FLOAT_BUF_LEN ==> r is Ok,
        // reserved nibbles are errors
        !nibble_valid(nibble) ==> r is Err,
//@ end

} // verus!
fn main() {}
