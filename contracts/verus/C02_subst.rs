//@ unit C02_subst
//@ props C02 C04 C01
//@ strength proved-unbounded
//@ min-verified 2
//@ assume singlesubst / alternatesubst / reversechainsinglesubst only assign fields of the glyph they are given (C04_single proves that for the first two); multiplesubst carries the contract PROVED in unit C04_mult; ligaturesubst the contract PROVED in unit C04_ligs; contextsubst / chaincontextsubst return apply_subst_context's result (PROVED in unit C02_ctx - the two units are mutually recursive in the code, each is verified against the other's contract; termination of that recursion is the recursion_limit argument, which strictly decreases: stated, not proved)
//@ assume MatchType::find_nth carries the contract PROVED in unit C02_find (clauses restated)
//@ assume a Vec<RawGlyph> holds at most usize::MAX / 2 elements (Rust allocation limit)
//@ assume LookupList::lookup_cache_gsub returns some cached lookup or an error; Rc is replaced by Box (only dereferenced); reversechainsinglesubst takes the Vec where the code passes it as a slice (deref coercion)
//@ unverified glyph contents; SUBST_RECURSION_LIMIT value
// Verification unit C02_subst (properties C02, C04): one nested lookup of a contextual substitution (apply_subst).
// Proved for every lookup type: the glyph position handed to the sub-table functions is inside the run (glyphs[i] never panics, also after
// an earlier nested lookup deleted glyphs), Ok(Some(c)): the run's length changed by exactly c, Ok(None): unchanged - the contract unit
// C02_ctx assumes for apply_subst.
use vstd::prelude::*;
verus! {
//@ item src/error.rs | enum ParseError | derive=
//@ item src/context.rs | enum IgnoreMarks | derive=Copy,Clone
//@ item src/context.rs | struct MatchType | derive=Copy,Clone

pub const SUBST_RECURSION_LIMIT: usize = 2;

pub struct GSUB { pub opaque: u8 }
pub struct GDEFTable { pub opaque: u8 }
pub struct LayoutCache<T> { pub opaque: T }
pub struct RawGlyph<T> { pub glyph_index: u16, pub extra_data: T }
pub trait GlyphData: Clone {}
#[derive(Copy, Clone)]
pub struct LookupFlag(pub u16);

pub struct SingleSubst { pub opaque: u8 }
pub struct MultipleSubst { pub opaque: u8 }
pub struct AlternateSubst { pub opaque: u8 }
pub struct LigatureSubst { pub opaque: u8 }
pub struct ContextLookup<T> { pub opaque: T }
pub struct ChainContextLookup<T> { pub opaque: T }
pub struct ReverseChainSingleSubst { pub opaque: u8 }

//@ item src/layout.rs | enum SubstLookup | derive=
//@ item src/layout.rs | struct LookupCacheItem | derive=

pub struct LookupList<T> { pub opaque: T }
pub struct LayoutTable<T> { pub opt_lookup_list: Option<LookupList<T>> }

impl LookupList<GSUB> {
    #[verifier::external_body]
    pub fn lookup_cache_gsub(&self, cache: &LayoutCache<GSUB>, lookup_index: usize) -> (r: Result<Box<LookupCacheItem<SubstLookup>>, ParseError>)
    { unimplemented!() }
}

impl MatchType {
    #[verifier::external_body]
    pub fn from_lookup_flag(lookup_flag: LookupFlag, mark_filtering_set: Option<u16>) -> (r: MatchType) { unimplemented!() }
    /// contract proved in unit C02_find (the clauses used here)
    #[verifier::external_body]
    pub fn find_nth<T>(self, opt_gdef_table: Option<&GDEFTable>, glyphs: &Vec<RawGlyph<T>>, index: usize, count: usize) -> (r: Option<usize>)
        ensures r is Some ==> index <= r->Some_0,
            r is Some && count == 0 ==> r->Some_0 == index,
            r is Some && count > 0 ==> index < r->Some_0 && r->Some_0 < glyphs@.len(),
    { unimplemented!() }
}

/// contract proved in unit C04_mult (length part)
#[verifier::external_body]
pub fn multiplesubst<T: GlyphData>(subtables: &Vec<MultipleSubst>, i: usize, glyphs: &mut Vec<RawGlyph<T>>) -> (r: Result<Option<usize>, ParseError>)
    requires i < old(glyphs)@.len(), old(glyphs)@.len() <= usize::MAX / 2
    ensures
        r is Ok && r->Ok_0 is Some ==> final(glyphs)@.len() == old(glyphs)@.len() + r->Ok_0->Some_0 - 1 && r->Ok_0->Some_0 <= usize::MAX / 2,
        !(r is Ok && r->Ok_0 is Some) ==> final(glyphs)@.len() == old(glyphs)@.len(),
        final(glyphs)@.len() <= usize::MAX / 2,
{ unimplemented!() }

/// contract proved in unit C04_ligs (which builds on Ligature::apply, unit C04_lig): (removed, skip)
#[verifier::external_body]
pub fn ligaturesubst<T: GlyphData>(opt_gdef_table: Option<&GDEFTable>, subtables: &Vec<LigatureSubst>, match_type: MatchType, i: usize, glyphs: &mut Vec<RawGlyph<T>>)
    -> (r: Result<Option<(usize, usize)>, ParseError>)
    requires i < old(glyphs)@.len()
    ensures
        r is Ok && r->Ok_0 is Some ==> final(glyphs)@.len() == old(glyphs)@.len() - r->Ok_0->Some_0.0 && r->Ok_0->Some_0.1 + i + 1 <= old(glyphs)@.len(),
        !(r is Ok && r->Ok_0 is Some) ==> final(glyphs)@.len() == old(glyphs)@.len(),
{ unimplemented!() }

/// contract of contextsubst / chaincontextsubst proved in unit C02_ctx: (input_length, changes)
pub open spec fn ctx_result(old_len: int, new_len: int, i: int, r: Result<Option<(usize, isize)>, ParseError>) -> bool {
    &&& r is Ok && r->Ok_0 is Some ==> new_len == old_len + r->Ok_0->Some_0.1 && i + r->Ok_0->Some_0.0 <= new_len && r->Ok_0->Some_0.0 - r->Ok_0->Some_0.1 >= 1
    &&& r is Ok && r->Ok_0 is None ==> new_len == old_len
    &&& new_len <= usize::MAX / 2
}
#[verifier::external_body]
pub fn contextsubst<T: GlyphData>(recursion_limit: usize, gsub_cache: &LayoutCache<GSUB>, lookup_list: &LookupList<GSUB>, opt_gdef_table: Option<&GDEFTable>,
    subtables: &Vec<ContextLookup<GSUB>>, feature_tag: u32, match_type: MatchType, i: usize, glyphs: &mut Vec<RawGlyph<T>>) -> (r: Result<Option<(usize, isize)>, ParseError>)
    requires i < old(glyphs)@.len(), old(glyphs)@.len() <= usize::MAX / 2
    ensures ctx_result(old(glyphs)@.len() as int, final(glyphs)@.len() as int, i as int, r)
{ unimplemented!() }
#[verifier::external_body]
pub fn chaincontextsubst<T: GlyphData>(recursion_limit: usize, gsub_cache: &LayoutCache<GSUB>, lookup_list: &LookupList<GSUB>, opt_gdef_table: Option<&GDEFTable>,
    subtables: &Vec<ChainContextLookup<GSUB>>, feature_tag: u32, match_type: MatchType, i: usize, glyphs: &mut Vec<RawGlyph<T>>) -> (r: Result<Option<(usize, isize)>, ParseError>)
    requires i < old(glyphs)@.len(), old(glyphs)@.len() <= usize::MAX / 2
    ensures ctx_result(old(glyphs)@.len() as int, final(glyphs)@.len() as int, i as int, r)
{ unimplemented!() }


#[verifier::external_body]
pub fn singlesubst<T: GlyphData>(subtables: &Vec<SingleSubst>, subst_tag: u32, glyph: &mut RawGlyph<T>) -> (r: Result<(), ParseError>) { unimplemented!() }
#[verifier::external_body]
pub fn alternatesubst<T: GlyphData>(subtables: &Vec<AlternateSubst>, alternate: usize, glyph: &mut RawGlyph<T>) -> (r: Result<(), ParseError>) { unimplemented!() }
#[verifier::external_body]
pub fn reversechainsinglesubst<T: GlyphData>(opt_gdef_table: Option<&GDEFTable>, subtables: &Vec<ReverseChainSingleSubst>, match_type: MatchType, i: usize, glyphs: &mut Vec<RawGlyph<T>>) -> (r: Result<(), ParseError>)
    requires i < old(glyphs)@.len()
    ensures final(glyphs)@.len() == old(glyphs)@.len()
{ unimplemented!() }

//@ fn src/gsub.rs | apply_subst
//@ ret r
//@ spec
    requires old(glyphs)@.len() <= usize::MAX / 2
    ensures
        r is Ok && r->Ok_0 is Some ==> final(glyphs)@.len() == old(glyphs)@.len() + r->Ok_0->Some_0,
        r is Ok && r->Ok_0 is None ==> final(glyphs)@.len() == old(glyphs)@.len(),
        final(glyphs)@.len() <= usize::MAX / 2,
//@ end

} // verus!
fn main() {}
