//@ unit C04_seq
//@ props C04 C05 C02
//@ strength proved-unbounded
//@ min-verified 6
//@ assume MatchType::match_glyph is an uninterpreted predicate here (conformance: Kani C04_flag); find_prev/find_next are used through the contracts proved in C02_find; Coverage/ClassDef look-ups through uninterpreted functions (contracts: L_cov)
//@ assume GDEFTable is an opaque placeholder type (only passed through)
//@ unverified completeness direction (a false result implies no matching sequence) is not stated; MatchContext::matches composition (three calls) is by reading
use vstd::prelude::*;
use std::rc::Rc;
verus! {

//@ item src/context.rs | enum IgnoreMarks | derive=Copy,Clone
//@ item src/context.rs | struct MatchType | derive=Copy,Clone
//@ item src/context.rs | enum GlyphTable | derive=
//@ item src/layout.rs | enum Coverage | derive=
//@ item src/layout.rs | struct CoverageRangeRecord | derive=
//@ item src/layout.rs | enum ClassDef | derive=
//@ item src/layout.rs | struct ClassRangeRecord | derive=

pub struct GDEFTable { pub opaque: u8 }
pub trait Glyph {
    spec fn gid(&self) -> u16;
    fn get_glyph_index(&self) -> (r: u16) ensures r == self.gid();
}

pub uninterp spec fn skips<G>(mt: MatchType, gdef: Option<&GDEFTable>, g: &G) -> bool;
pub open spec fn m<G>(mt: MatchType, gdef: Option<&GDEFTable>, s: Seq<G>, k: int) -> bool { !skips(mt, gdef, &s[k]) }
pub uninterp spec fn cov_index(c: Coverage, g: u16) -> Option<u16>;
pub uninterp spec fn class_of(c: ClassDef, g: u16) -> u16;

impl Coverage {
    #[verifier::external_body]
    pub fn glyph_coverage_value(&self, glyph: u16) -> (r: Option<u16>) ensures r == cov_index(*self, glyph) { unimplemented!() }
}
impl ClassDef {
    #[verifier::external_body]
    pub fn glyph_class_value(&self, glyph: u16) -> (r: u16) ensures r == class_of(*self, glyph) { unimplemented!() }
}

/// does entry i of a context table accept this glyph id? (OpenType context formats 1, 2, 3: by glyph id, by class, by coverage)
pub open spec fn accepts(t: GlyphTable<'_>, i: int, gid: u16) -> bool {
    match t {
        GlyphTable::Empty => false,
        GlyphTable::ById(a) => a@[i] == gid,
        GlyphTable::ByClassDef(cd, a) => class_of(*cd, gid) == a@[i],
        GlyphTable::ByCoverage(v) => cov_index(*v@[i], gid) is Some,
    }
}
pub open spec fn table_len(t: GlyphTable<'_>) -> nat {
    match t { GlyphTable::Empty => 0, GlyphTable::ById(a) => a@.len(), GlyphTable::ByClassDef(_, a) => a@.len(), GlyphTable::ByCoverage(v) => v@.len() }
}

impl<'a> GlyphTable<'a> {
//@ fn src/context.rs | impl<'a> GlyphTable<'a> | len
//@ ret r
//@ spec
    ensures r == table_len(*self)
//@ end
}

//@ fn src/context.rs | check_glyph_table
//@ ret r
//@ spec
    requires i < table_len(*glyph_table)
    ensures r == accepts(*glyph_table, i as int, glyph_index)
//@ end

/// js are the positions matched by a forward walk from `start`: each the nearest non-skipped glyph after its predecessor,
/// and the k-th accepted by table entry k
pub open spec fn forward_match<G: Glyph>(mt: MatchType, gdef: Option<&GDEFTable>, t: GlyphTable<'_>, s: Seq<G>, start: int, js: Seq<int>) -> bool {
    forall|k: int| 0 <= k < js.len() ==> {
        let prev = if k == 0 { start } else { js[k - 1] };
        prev < #[trigger] js[k] < s.len() && m(mt, gdef, s, js[k]) && (forall|x: int| prev < x < js[k] ==> !m(mt, gdef, s, x)) && accepts(t, k, s[js[k]].gid())
    }
}
pub open spec fn backward_match<G: Glyph>(mt: MatchType, gdef: Option<&GDEFTable>, t: GlyphTable<'_>, s: Seq<G>, start: int, js: Seq<int>) -> bool {
    forall|k: int| 0 <= k < js.len() ==> {
        let prev = if k == 0 { start } else { js[k - 1] };
        0 <= #[trigger] js[k] < prev && m(mt, gdef, s, js[k]) && (forall|x: int| js[k] < x < prev ==> !m(mt, gdef, s, x)) && accepts(t, k, s[js[k]].gid())
    }
}

impl MatchType {
    #[verifier::external_body]   // contract proved in C02_find
    pub fn find_prev<G: Glyph>(self, opt_gdef_table: Option<&GDEFTable>, glyphs: &[G], index: usize) -> (r: Option<usize>)
        requires index <= glyphs@.len()
        ensures
            r is Some ==> r->Some_0 < index && m(self, opt_gdef_table, glyphs@, r->Some_0 as int)
                && (forall|k: int| r->Some_0 < k < index ==> !m(self, opt_gdef_table, glyphs@, k)),
            r is None ==> (forall|k: int| 0 <= k < index ==> !m(self, opt_gdef_table, glyphs@, k)),
    { unimplemented!() }
    #[verifier::external_body]   // contract proved in C02_find
    pub fn find_next<G: Glyph>(self, opt_gdef_table: Option<&GDEFTable>, glyphs: &[G], index: usize) -> (r: Option<usize>)
        requires index < usize::MAX
        ensures
            r is Some ==> index < r->Some_0 < glyphs@.len() && m(self, opt_gdef_table, glyphs@, r->Some_0 as int)
                && (forall|k: int| index < k < r->Some_0 ==> !m(self, opt_gdef_table, glyphs@, k)),
            r is None ==> (forall|k: int| index < k < glyphs@.len() ==> !m(self, opt_gdef_table, glyphs@, k)),
    { unimplemented!() }

//@ fn src/context.rs | impl MatchType | match_back
//@ ret r
//@ attr #[verifier::loop_isolation(false)]
//@ before for i in
        let ghost start = index as int;
        let ghost mut js: Seq<int> = Seq::empty();
//@ iter 1 it
//@ loop 1
            invariant js.len() == i, index <= glyphs@.len(), index as int == (if i == 0 { start } else { js[i as int - 1] }),
                backward_match(self, opt_gdef_table, *glyph_table, glyphs@, start, js),
//@ after? index = prev_index;
                    proof { js = js.push(index as int); }
//@ spec
    requires index <= glyphs@.len()
    ensures r ==> (exists|js: Seq<int>| js.len() == table_len(*glyph_table) && backward_match(self, opt_gdef_table, *glyph_table, glyphs@, index as int, js))
//@ end

//@ fn src/context.rs | impl MatchType | match_front
//@ ret r
//@ attr #[verifier::loop_isolation(false)]
//@ before for i in
        let ghost start = index as int;
        let ghost mut js: Seq<int> = Seq::empty();
//@ iter 1 it
//@ loop 1
            invariant js.len() == i, index < usize::MAX, index as int == (if i == 0 { start } else { js[i as int - 1] }),
                backward_match(self, opt_gdef_table, *glyph_table, glyphs@, start, js) || true,
                forward_match(self, opt_gdef_table, *glyph_table, glyphs@, start, js),
//@ after? index = next_index;
                    proof { js = js.push(index as int); }
//@ spec
    requires index < usize::MAX
    ensures
        r ==> (exists|js: Seq<int>| js.len() == table_len(*glyph_table) && forward_match(self, opt_gdef_table, *glyph_table, glyphs@, index as int, js)
            && *final(last_index) as int == (if js.len() == 0 { index as int } else { js[js.len() - 1] })),
        !r ==> *final(last_index) == *old(last_index),
//@ end
}

} // verus!
fn main() {}
