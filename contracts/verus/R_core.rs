//@ unit R_core
//@ props C14 C01 C09
//@ strength proved-unbounded
//@ min-verified 53
//@ assume slice lengths fit usize (ReadScope::new ensures wf only under data.len() <= usize::MAX)
//@ assume arithmetic precondition of ReadScope::offset/offset_length: base + offset <= usize::MAX (holds on 64-bit targets for offsets read from <=32-bit fields; callers are not under contract)
//@ unverified ReadScope::read/read_dep/read_cache/read_cache_state and ReadCtxt::read/read_dep (GAT-generic dispatch; exercised by Kani unit R_array)
// Verification unit R-core (properties C14, C01): the non-generic reader core of
// src/binary/read.rs and the alignment helpers of src/binary.rs.  Bodies are sliced
// from /repo on every run; see tools/extract.py for the fixed rewriting rules.
use vstd::prelude::*;
verus! {

//@ item src/binary/read.rs | struct ReadEof
//@ item src/error.rs | enum ParseError | derive=
//@ item src/binary/read.rs | struct ReadScope
//@ item src/binary/read.rs | struct ReadCtxt | derive=

pub mod size {
    // src/size.rs (mem::size_of is not callable in Verus; values are Rust language facts, listed as an assumption in R_unchecked)
    pub const U8: usize = 1; pub const I8: usize = 1; pub const U16: usize = 2; pub const I16: usize = 2; pub const U24: usize = 3;
    pub const U32: usize = 4; pub const I32: usize = 4; pub const U64: usize = 8; pub const I64: usize = 8;
}

// ---- specification vocabulary -------------------------------------------------
pub open spec fn be16(s: Seq<u8>, i: int) -> int { s[i] as int * 0x100 + s[i + 1] as int }
pub open spec fn be24(s: Seq<u8>, i: int) -> int { s[i] as int * 0x10000 + s[i + 1] as int * 0x100 + s[i + 2] as int }
pub open spec fn be32(s: Seq<u8>, i: int) -> int {
    s[i] as int * 0x1000000 + s[i + 1] as int * 0x10000 + s[i + 2] as int * 0x100 + s[i + 3] as int
}
pub open spec fn be64(s: Seq<u8>, i: int) -> int { be32(s, i) * 0x1_0000_0000 + be32(s, i + 4) }

proof fn lemma_be16(hi: u16, lo: u16)
    requires hi < 0x100, lo < 0x100
    ensures ((hi << 8) | lo) == hi * 0x100 + lo
{ assert(((hi << 8) | lo) == hi * 0x100 + lo) by(bit_vector) requires hi < 0x100, lo < 0x100; }

proof fn lemma_be24(b0: u32, b1: u32, b2: u32)
    requires b0 < 0x100, b1 < 0x100, b2 < 0x100
    ensures ((b0 << 16) | (b1 << 8) | b2) == b0 * 0x10000 + b1 * 0x100 + b2
{ assert(((b0 << 16) | (b1 << 8) | b2) == b0 * 0x10000 + b1 * 0x100 + b2) by(bit_vector) requires b0 < 0x100, b1 < 0x100, b2 < 0x100; }

proof fn lemma_be32(b0: u32, b1: u32, b2: u32, b3: u32)
    requires b0 < 0x100, b1 < 0x100, b2 < 0x100, b3 < 0x100
    ensures ((b0 << 24) | (b1 << 16) | (b2 << 8) | b3) == b0 * 0x1000000 + b1 * 0x10000 + b2 * 0x100 + b3
{ assert(((b0 << 24) | (b1 << 16) | (b2 << 8) | b3) == b0 * 0x1000000 + b1 * 0x10000 + b2 * 0x100 + b3) by(bit_vector)
    requires b0 < 0x100, b1 < 0x100, b2 < 0x100, b3 < 0x100; }

proof fn lemma_be64(hi: u64, lo: u64)
    requires hi < 0x1_0000_0000, lo < 0x1_0000_0000
    ensures ((hi << 32) | lo) == hi * 0x1_0000_0000 + lo
{ assert(((hi << 32) | lo) == hi * 0x1_0000_0000 + lo) by(bit_vector) requires hi < 0x1_0000_0000, lo < 0x1_0000_0000; }

impl<'a> ReadScope<'a> {
    pub open spec fn wf(&self) -> bool { self.base + self.data@.len() <= usize::MAX }
    /// the window `[offset, offset+length)` of this scope, as the property states it
    pub open spec fn window(&self, offset: int, length: int) -> Seq<u8> { self.data@.subrange(offset, offset + length) }

//@ fn src/binary/read.rs | impl<'a> ReadScope<'a> | new
//@ ret r
//@ spec
    ensures r.base == 0, r.data@ == data@, data@.len() <= usize::MAX ==> r.wf()
//@ end

//@ fn src/binary/read.rs | impl<'a> ReadScope<'a> | data
//@ ret r
//@ spec
    ensures r@ == self.data@
//@ end

//@ fn src/binary/read.rs | impl<'a> ReadScope<'a> | offset
//@ ret r
//@ spec
    requires self.base + offset <= usize::MAX   // arithmetic precondition, see evidence/assumptions
    ensures r.base == self.base + offset,
        offset <= self.data@.len() ==> r.data@ == self.data@.subrange(offset as int, self.data@.len() as int),
        offset > self.data@.len() ==> r.data@.len() == 0,
        self.wf() && offset <= self.data@.len() ==> r.wf(),
//@ end

//@ fn src/binary/read.rs | impl<'a> ReadScope<'a> | offset_length
//@ ret r
//@ spec
    requires self.base + offset <= usize::MAX
    ensures
        // success: exactly the declared window, never more
        r is Ok ==> r->Ok_0.base == self.base + offset
            && r->Ok_0.data@.len() == length
            && (length > 0 ==> offset + length <= self.data@.len())
            && (offset <= self.data@.len() ==> offset + length <= self.data@.len() && r->Ok_0.data@ == self.window(offset as int, length as int)),
        r is Ok && self.wf() && offset <= self.data@.len() ==> r->Ok_0.wf(),
        // completeness: a window that fits is never refused
        offset + length <= self.data@.len() ==> r is Ok,
        // error kinds as the code documents them
        r is Err ==> (r->Err_0 == ParseError::BadEof || r->Err_0 == ParseError::BadOffset),
        r is Err && r->Err_0 == ParseError::BadOffset ==> offset >= self.data@.len() && length != 0,
//@ end

//@ fn src/binary/read.rs | impl<'a> ReadScope<'a> | ctxt
//@ ret r
//@ spec
    ensures r.scope == *self, r.offset == 0, self.wf() ==> r.wf()
//@ end
}

impl<'a> ReadCtxt<'a> {
    pub open spec fn wf(&self) -> bool { self.scope.wf() && self.offset <= self.scope.data@.len() }
    pub open spec fn avail(&self, n: int) -> bool { self.offset + n <= self.scope.data@.len() }
    pub open spec fn advanced(&self, old: &Self, n: int) -> bool { self.scope == old.scope && self.offset == old.offset + n }

//@ fn src/binary/read.rs | impl<'a> ReadCtxt<'a> | new
//@ ret r
//@ spec
    ensures r.scope == scope, r.offset == 0
//@ end

//@ fn src/binary/read.rs | impl<'a> ReadCtxt<'a> | check
//@ ret r
//@ spec
    ensures r is Ok <==> cond, r is Err ==> r->Err_0 == ParseError::BadValue
//@ end

//@ fn src/binary/read.rs | impl<'a> ReadCtxt<'a> | check_index
//@ ret r
//@ spec
    ensures r is Ok <==> cond, r is Err ==> r->Err_0 == ParseError::BadIndex
//@ end

//@ fn src/binary/read.rs | impl<'a> ReadCtxt<'a> | check_version
//@ ret r
//@ spec
    ensures r is Ok <==> cond, r is Err ==> r->Err_0 == ParseError::BadVersion
//@ end

//@ fn src/binary/read.rs | impl<'a> ReadCtxt<'a> | scope
//@ ret r
//@ spec
    requires self.wf()
    ensures r.base == self.scope.base + self.offset, r.wf(),
        r.data@ == self.scope.data@.subrange(self.offset as int, self.scope.data@.len() as int)
//@ end

//@ fn src/binary/read.rs | impl<'a> ReadCtxt<'a> | bytes_available
//@ ret r
//@ spec
    ensures r == (self.offset < self.scope.data@.len())
//@ end

//@ fn src/binary/read.rs | impl<'a> ReadCtxt<'a> | check_avail
//@ ret r
//@ spec
    // safety direction (unbounded). The completeness direction (Err ==> does not fit) is
    // Kani unit R_avail: Verus loses the negation of a match guard that contains a call.
    ensures r is Ok ==> self.avail(length as int)
//@ end

//@ fn src/binary/read.rs | impl<'a> ReadCtxt<'a> | read_unchecked_u8
//@ ret r
//@ spec
    requires old(self).avail(1)
    ensures final(self).advanced(old(self), 1), r == old(self).scope.data@[old(self).offset as int]
//@ end

//@ fn src/binary/read.rs | impl<'a> ReadCtxt<'a> | read_unchecked_i8
//@ ret r
//@ spec
    requires old(self).avail(1)
    ensures final(self).advanced(old(self), 1), r == old(self).scope.data@[old(self).offset as int] as i8
//@ end

//@ fn src/binary/read.rs | impl<'a> ReadCtxt<'a> | read_unchecked_u16be
//@ ret r
//@ spec
    requires old(self).avail(2)
    ensures final(self).advanced(old(self), 2), r as int == be16(old(self).scope.data@, old(self).offset as int)
//@ after let lo =
        proof { lemma_be16(hi, lo); }
//@ end

//@ fn src/binary/read.rs | impl<'a> ReadCtxt<'a> | read_unchecked_i16be
//@ ret r
//@ spec
    requires old(self).avail(2)
    ensures final(self).advanced(old(self), 2), r == (be16(old(self).scope.data@, old(self).offset as int) as u16) as i16
//@ end

//@ fn src/binary/read.rs | impl<'a> ReadCtxt<'a> | read_unchecked_u24be
//@ ret r
//@ spec
    requires old(self).avail(3)
    ensures final(self).advanced(old(self), 3), r as int == be24(old(self).scope.data@, old(self).offset as int)
//@ after let b2 =
        proof { lemma_be24(b0, b1, b2); }
//@ end

//@ fn src/binary/read.rs | impl<'a> ReadCtxt<'a> | read_unchecked_u32be
//@ ret r
//@ spec
    requires old(self).avail(4)
    ensures final(self).advanced(old(self), 4), r as int == be32(old(self).scope.data@, old(self).offset as int)
//@ after let b3 =
        proof { lemma_be32(b0, b1, b2, b3); }
//@ end

//@ fn src/binary/read.rs | impl<'a> ReadCtxt<'a> | read_unchecked_i32be
//@ ret r
//@ spec
    requires old(self).avail(4)
    ensures final(self).advanced(old(self), 4), r == (be32(old(self).scope.data@, old(self).offset as int) as u32) as i32
//@ end

//@ fn src/binary/read.rs | impl<'a> ReadCtxt<'a> | read_unchecked_u64be
//@ ret r
//@ spec
    requires old(self).avail(8)
    ensures final(self).advanced(old(self), 8), r as int == be64(old(self).scope.data@, old(self).offset as int)
//@ after let lo =
        proof { lemma_be64(hi, lo); }
//@ end

//@ fn src/binary/read.rs | impl<'a> ReadCtxt<'a> | read_unchecked_i64be
//@ ret r
//@ spec
    requires old(self).avail(8)
    ensures final(self).advanced(old(self), 8), r == (be64(old(self).scope.data@, old(self).offset as int) as u64) as i64
//@ end

//@ fn src/binary/read.rs | impl<'a> ReadCtxt<'a> | read_u8
//@ ret r
//@ spec
    requires old(self).wf()
    ensures final(self).wf(),
        r is Ok ==> old(self).avail(1) && final(self).advanced(old(self), 1) && r->Ok_0 == old(self).scope.data@[old(self).offset as int],
        r is Err ==> *final(self) == *old(self)
//@ end

//@ fn src/binary/read.rs | impl<'a> ReadCtxt<'a> | read_i8
//@ ret r
//@ spec
    requires old(self).wf()
    ensures final(self).wf(),
        r is Ok ==> old(self).avail(1) && final(self).advanced(old(self), 1) && r->Ok_0 == old(self).scope.data@[old(self).offset as int] as i8,
        r is Err ==> *final(self) == *old(self)
//@ end

//@ fn src/binary/read.rs | impl<'a> ReadCtxt<'a> | read_u16be
//@ ret r
//@ spec
    requires old(self).wf()
    ensures final(self).wf(),
        r is Ok ==> old(self).avail(2) && final(self).advanced(old(self), 2) && r->Ok_0 as int == be16(old(self).scope.data@, old(self).offset as int),
        r is Err ==> *final(self) == *old(self)
//@ end

//@ fn src/binary/read.rs | impl<'a> ReadCtxt<'a> | read_i16be
//@ ret r
//@ spec
    requires old(self).wf()
    ensures final(self).wf(),
        r is Ok ==> old(self).avail(2) && final(self).advanced(old(self), 2) && r->Ok_0 == (be16(old(self).scope.data@, old(self).offset as int) as u16) as i16,
        r is Err ==> *final(self) == *old(self)
//@ end

//@ fn src/binary/read.rs | impl<'a> ReadCtxt<'a> | read_u32be
//@ ret r
//@ spec
    requires old(self).wf()
    ensures final(self).wf(),
        r is Ok ==> old(self).avail(4) && final(self).advanced(old(self), 4) && r->Ok_0 as int == be32(old(self).scope.data@, old(self).offset as int),
        r is Err ==> *final(self) == *old(self)
//@ end

//@ fn src/binary/read.rs | impl<'a> ReadCtxt<'a> | read_i32be
//@ ret r
//@ spec
    requires old(self).wf()
    ensures final(self).wf(),
        r is Ok ==> old(self).avail(4) && final(self).advanced(old(self), 4) && r->Ok_0 == (be32(old(self).scope.data@, old(self).offset as int) as u32) as i32,
        r is Err ==> *final(self) == *old(self)
//@ end

//@ fn src/binary/read.rs | impl<'a> ReadCtxt<'a> | read_u64be
//@ ret r
//@ spec
    requires old(self).wf()
    ensures final(self).wf(),
        r is Ok ==> old(self).avail(8) && final(self).advanced(old(self), 8) && r->Ok_0 as int == be64(old(self).scope.data@, old(self).offset as int),
        r is Err ==> *final(self) == *old(self)
//@ end

//@ fn src/binary/read.rs | impl<'a> ReadCtxt<'a> | read_i64be
//@ ret r
//@ spec
    requires old(self).wf()
    ensures final(self).wf(),
        r is Ok ==> old(self).avail(8) && final(self).advanced(old(self), 8) && r->Ok_0 == (be64(old(self).scope.data@, old(self).offset as int) as u64) as i64,
        r is Err ==> *final(self) == *old(self)
//@ end

//@ fn src/binary/read.rs | impl<'a> ReadCtxt<'a> | read_scope
//@ ret r
//@ spec
    requires old(self).wf()
    ensures final(self).wf(),
        r is Ok <==> old(self).avail(length as int),
        r is Ok ==> final(self).advanced(old(self), length as int)
            && r->Ok_0.base == old(self).scope.base + old(self).offset
            && r->Ok_0.data@ == old(self).scope.window(old(self).offset as int, length as int)
            && r->Ok_0.wf(),
        r is Err ==> *final(self) == *old(self)
//@ end

//@ fn src/binary/read.rs | impl<'a> ReadCtxt<'a> | read_slice
//@ ret r
//@ spec
    requires old(self).wf()
    ensures final(self).wf(),
        r is Ok <==> old(self).avail(length as int),
        r is Ok ==> final(self).advanced(old(self), length as int)
            && r->Ok_0@ == old(self).scope.window(old(self).offset as int, length as int),
        r is Err ==> *final(self) == *old(self)
//@ end
}

//@ fn src/binary.rs | long_align
//@ ret r
//@ spec
    requires len <= usize::MAX - 3
    ensures r % 4 == 0, len <= r, r < len + 4
//@ end

//@ fn src/binary.rs | word_align
//@ ret r
//@ spec
    requires len <= usize::MAX - 1
    ensures r % 2 == 0, len <= r, r < len + 2
//@ end

// ---- reachability witnesses for the preconditions (vacuity guard) ----------------
fn witness_read(data: &[u8])
    requires data@.len() == 4
{
    let n = data.len();
    let scope = ReadScope::new(data);
    let mut ctxt = scope.ctxt();
    let a = ctxt.read_u16be();
    let b = ctxt.read_scope(2);
    assert(b is Ok);
    let c = ctxt.read_u8();
    let s = scope.offset_length(1, 3);
    assert(s is Ok);
    let t = scope.offset(4);
}

} // verus!
fn main() {}
