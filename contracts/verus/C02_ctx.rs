//@ unit C02_ctx
//@ props C02 C04 C01
//@ strength proved-unbounded
//@ min-verified 5
//@ assume MatchType::find_nth carries the contract PROVED in unit C02_find (restated: a Some result is never before `index`)
//@ assume checked_add carries the contract PROVED complete by Kani C04_subst::length_arith (Some(base + changes) when that is a usize, None otherwise)
//@ assume apply_subst carries the contract PROVED in unit C02_subst (the two functions are mutually recursive through contextsubst; each unit is verified against the other's contract, termination by the decreasing recursion_limit is stated, not proved): Ok(Some(c)) - the run's length changed by exactly c (0 for single / alternate / reverse chaining, count - 1 for multiple, -removed for ligature, the nested change for contextual lookups, which is this unit's own postcondition); Ok(None) - length unchanged. Nothing is assumed about whether c stays within the span of the context's input sequence: a nested ligature works on the whole run
//@ assume a Vec<RawGlyph> holds at most usize::MAX / 2 (= isize::MAX) elements (Rust allocation limit for a non-zero-sized element type): precondition here, postcondition of the apply_subst stub
//@ assume SubstContext / MatchContext / GlyphTable / LookupList / LayoutCache are opaque placeholder types; GlyphTable::len is an uninterpreted usize
//@ unverified contextsubst_would_apply / chaincontextsubst_would_apply (closures): which context matches
// Verification unit C02_ctx (properties C02, C04): nested lookups of a contextual substitution (GSUB types 5 and 6).
// Proved for every match, every list of (sequence index, lookup index) records and every behaviour of the nested lookups allowed by
// apply_subst's contract:
//   * the function returns: no panic is reachable (the pinned tree had `panic!("apply_subst_context: len < 0")` here, reachable with a
//     nested ligature longer than the context - fixed in /repo, see known_findings.txt), the accumulated change does not overflow;
//   * Ok(Some((new_len, changes))): the run's length changed by exactly `changes` (the sum of the nested changes) and
//     new_len = span of the input sequence + changes; Ok(None): the run's length is unchanged.
use vstd::prelude::*;
verus! {

//@ item src/error.rs | enum ParseError | derive=
//@ item src/context.rs | enum IgnoreMarks | derive=Copy,Clone
//@ item src/context.rs | struct MatchType | derive=Copy,Clone

pub struct GSUB { pub opaque: u8 }
pub struct GDEFTable { pub opaque: u8 }
pub struct LayoutCache<T> { pub opaque: T }
pub struct LookupList<T> { pub opaque: T }
pub struct RawGlyph<T> { pub glyph_index: u16, pub extra_data: T }
pub trait GlyphData: Clone {}

pub struct GlyphTable<'a> { pub opaque: &'a [u16] }
pub uninterp spec fn table_len(t: GlyphTable<'_>) -> usize;
impl<'a> GlyphTable<'a> {
    #[verifier::external_body]
    pub fn len(&self) -> (r: usize) ensures r == table_len(*self) { unimplemented!() }
}
pub struct MatchContext<'a> {
    pub backtrack_table: GlyphTable<'a>,
    pub input_table: GlyphTable<'a>,
    pub lookahead_table: GlyphTable<'a>,
}
pub struct SubstContext<'a> {
    pub match_context: MatchContext<'a>,
    pub lookup_array: &'a [(u16, u16)],
}

/// find_nth is a deterministic function of its arguments: its value is named so that the span of the match can be stated
pub uninterp spec fn nth_spec<T>(mt: MatchType, gdef: Option<&GDEFTable>, s: Seq<RawGlyph<T>>, index: usize, count: usize) -> Option<usize>;

impl MatchType {
    /// contract proved in unit C02_find (the clauses used here)
    #[verifier::external_body]
    pub fn find_nth<T>(self, opt_gdef_table: Option<&GDEFTable>, glyphs: &Vec<RawGlyph<T>>, index: usize, count: usize) -> (r: Option<usize>)
        ensures r == nth_spec(self, opt_gdef_table, glyphs@, index, count),
            r is Some ==> index <= r->Some_0,
            r is Some && count == 0 ==> r->Some_0 == index,
            r is Some && count > 0 ==> index < r->Some_0 && r->Some_0 < glyphs@.len(),
    { unimplemented!() }
}

/// contract proved complete by Kani harness C04_subst::length_arith
#[verifier::external_body]
pub fn checked_add(base: usize, changes: isize) -> (r: Option<usize>)
    ensures
        0 <= base + changes <= usize::MAX ==> r == Some((base + changes) as usize),
        !(0 <= base + changes <= usize::MAX) ==> r is None,
{ unimplemented!() }

/// contract proved in unit C02_subst
#[verifier::external_body]
pub fn apply_subst<T: GlyphData>(
    recursion_limit: usize,
    gsub_cache: &LayoutCache<GSUB>,
    lookup_list: &LookupList<GSUB>,
    opt_gdef_table: Option<&GDEFTable>,
    parent_match_type: MatchType,
    subst_index: usize,
    lookup_index: usize,
    feature_tag: u32,
    glyphs: &mut Vec<RawGlyph<T>>,
    index: usize,
) -> (r: Result<Option<isize>, ParseError>)
    requires old(glyphs)@.len() <= usize::MAX / 2
    ensures
        r is Ok && r->Ok_0 is Some ==> final(glyphs)@.len() == old(glyphs)@.len() + r->Ok_0->Some_0,
        r is Ok && r->Ok_0 is None ==> final(glyphs)@.len() == old(glyphs)@.len(),
        final(glyphs)@.len() <= usize::MAX / 2,
{ unimplemented!() }

//@ fn src/gsub.rs | apply_subst_context
//@ ret r
//@ attr #[verifier::loop_isolation(false)]
//@ loop 1
        invariant glyphs@.len() == old(glyphs)@.len() + changes, glyphs@.len() <= usize::MAX / 2,
//@ spec
    requires old(glyphs)@.len() <= usize::MAX / 2, i < old(glyphs)@.len()
    ensures
        final(glyphs)@.len() <= usize::MAX / 2,
        // what the caller's cursor arithmetic relies on (unit C02_lookup): the match ends inside the new run and spans at least one glyph
        r is Ok && r->Ok_0 is Some ==> i + r->Ok_0->Some_0.0 <= final(glyphs)@.len() && r->Ok_0->Some_0.0 - r->Ok_0->Some_0.1 >= 1,
        r is Ok && r->Ok_0 is Some ==> final(glyphs)@.len() == old(glyphs)@.len() + r->Ok_0->Some_0.1,
        r is Ok && r->Ok_0 is None ==> final(glyphs)@.len() == old(glyphs)@.len(),
        // the reported length of the match is the span of the input sequence (first to last matched glyph) plus the change
        r is Ok && r->Ok_0 is Some ==> ({
            let last = nth_spec(match_type, opt_gdef_table, old(glyphs)@, i, table_len(subst.match_context.input_table));
            last is Some && r->Ok_0->Some_0.0 == last->Some_0 - i + 1 + r->Ok_0->Some_0.1
        }),
        // when the input sequence cannot be located nothing happens
        nth_spec(match_type, opt_gdef_table, old(glyphs)@, i, table_len(subst.match_context.input_table)) is None
            ==> r is Ok && r->Ok_0 is None && final(glyphs)@ == old(glyphs)@,
//@ end

pub struct ContextLookup<T> { pub opaque: T }
pub struct ChainContextLookup<T> { pub opaque: T }
/// which rule matches is decided with closures (context_lookup_info): opaque here - some context, none, or an error; the run is only read
#[verifier::external_body]
pub fn contextsubst_would_apply<'a, T: GlyphData>(opt_gdef_table: Option<&GDEFTable>, subtables: &'a [ContextLookup<GSUB>], match_type: MatchType, i: usize, glyphs: &Vec<RawGlyph<T>>)
    -> (r: Result<Option<Box<SubstContext<'a>>>, ParseError>)
    requires i < glyphs@.len()
{ unimplemented!() }
#[verifier::external_body]
pub fn chaincontextsubst_would_apply<'a, T: GlyphData>(opt_gdef_table: Option<&GDEFTable>, subtables: &'a [ChainContextLookup<GSUB>], match_type: MatchType, i: usize, glyphs: &Vec<RawGlyph<T>>)
    -> (r: Result<Option<Box<SubstContext<'a>>>, ParseError>)
    requires i < glyphs@.len()
{ unimplemented!() }

/// the result contract units C02_lookup and C02_subst use for contextsubst / chaincontextsubst
pub open spec fn ctx_result(old_len: int, new_len: int, i: int, r: Result<Option<(usize, isize)>, ParseError>) -> bool {
    &&& r is Ok && r->Ok_0 is Some ==> new_len == old_len + r->Ok_0->Some_0.1 && i + r->Ok_0->Some_0.0 <= new_len && r->Ok_0->Some_0.0 - r->Ok_0->Some_0.1 >= 1
    &&& r is Ok && r->Ok_0 is None ==> new_len == old_len
    &&& new_len <= usize::MAX / 2
}

//@ fn src/gsub.rs | contextsubst
//@ ret r
//@ spec
    requires i < old(glyphs)@.len(), old(glyphs)@.len() <= usize::MAX / 2
    ensures ctx_result(old(glyphs)@.len() as int, final(glyphs)@.len() as int, i as int, r)
//@ end

//@ fn src/gsub.rs | chaincontextsubst
//@ ret r
//@ spec
    requires i < old(glyphs)@.len(), old(glyphs)@.len() <= usize::MAX / 2
    ensures ctx_result(old(glyphs)@.len() as int, final(glyphs)@.len() as int, i as int, r)
//@ end

} // verus!
fn main() {}
