//@ unit C13_dn
//@ props C13 C01
//@ strength proved-unbounded
//@ min-verified 31
//@ assume #[derive(PartialOrd, Ord)] on the newtype Fixed orders by the i32 field (Rust derive semantics, stated as PartialOrdSpecImpl)
//@ assume Ord::clamp is routed through the wrapper `ord_clamp` carrying std's documented contract (panics unless min <= max; result = max(min, min(self, max)))
//@ assume axis precondition of default_normalize: min <= default <= max (the property's quantifier) and max - min < 2^31 raw units (axis range below 32768.0); beyond that Fixed::sub wraps - see known finding C13 wide axis
//@ unverified FvarTable::normalize driver (iterator zip, TinyVec) - Kani unit C13_norm
use vstd::prelude::*;
use vstd::std_specs::cmp::*;
use core::cmp::Ordering;
verus! {

//@ item src/tables.rs | struct Fixed | derive=Copy,Clone
//@ item src/tables/variable_fonts/fvar.rs | struct VariationAxisRecord | derive=

// ---- derive(PartialEq, PartialOrd) semantics of the newtype (assumption, listed) -----------
impl PartialEq for Fixed {
    fn eq(&self, other: &Fixed) -> (r: bool) ensures r == (self.0 == other.0) { self.0 == other.0 }
}
impl PartialEqSpecImpl for Fixed {
    open spec fn obeys_eq_spec() -> bool { true }
    open spec fn eq_spec(&self, other: &Fixed) -> bool { self.0 == other.0 }
}
impl PartialOrd for Fixed {
    fn partial_cmp(&self, other: &Fixed) -> (r: Option<Ordering>)
        ensures r == Some(if self.0 < other.0 { Ordering::Less } else if self.0 == other.0 { Ordering::Equal } else { Ordering::Greater })
    { Some(if self.0 < other.0 { Ordering::Less } else if self.0 == other.0 { Ordering::Equal } else { Ordering::Greater }) }
}
impl PartialOrdSpecImpl for Fixed {
    open spec fn obeys_partial_cmp_spec() -> bool { true }
    open spec fn partial_cmp_spec(&self, other: &Fixed) -> Option<Ordering> {
        Some(if self.0 < other.0 { Ordering::Less } else if self.0 == other.0 { Ordering::Equal } else { Ordering::Greater })
    }
}

/// std's documented contract of Ord::clamp (rule-5 wrapper)
#[verifier::external_body]
pub fn ord_clamp(x: Fixed, min: Fixed, max: Fixed) -> (r: Fixed)
    requires min.0 <= max.0          // std: "Panics if min > max"
    ensures r.0 == (if x.0 < min.0 { min.0 } else if x.0 > max.0 { max.0 } else { x.0 })
{ unimplemented!() }

// ---- mathematical vocabulary ----------------------------------------------------------------
pub open spec fn wrap32(x: int) -> int {
    let m = x % 0x1_0000_0000;
    if m >= 0x8000_0000 { m - 0x1_0000_0000 } else { m }
}
pub open spec fn in32(x: int) -> bool { -0x8000_0000 <= x < 0x8000_0000 }

proof fn lemma_shl16_i64(x: i64)
    requires -0x8000_0000 <= x < 0x8000_0000
    ensures (x << 16) == x * 65536
{ assert((x << 16) == x * 65536) by(bit_vector) requires -0x8000_0000 <= x < 0x8000_0000; }

proof fn lemma_shl16_i32(x: i32)
    requires -0x8000 <= x < 0x8000
    ensures (x << 16) == x * 65536
{ assert((x << 16) == x * 65536) by(bit_vector) requires -0x8000 <= x < 0x8000; }

impl vstd::std_specs::ops::SubSpecImpl<Fixed> for Fixed {
    open spec fn obeys_sub_spec() -> bool { false }
    open spec fn sub_req(self, rhs: Fixed) -> bool { true }
    open spec fn sub_spec(self, rhs: Fixed) -> Fixed { arbitrary() }
}
impl vstd::std_specs::ops::DivSpecImpl<Fixed> for Fixed {
    open spec fn obeys_div_spec() -> bool { false }
    open spec fn div_req(self, rhs: Fixed) -> bool { true }
    open spec fn div_spec(self, rhs: Fixed) -> Fixed { arbitrary() }
}
impl vstd::std_specs::ops::NegSpecImpl for Fixed {
    open spec fn obeys_neg_spec() -> bool { false }
    open spec fn neg_req(self) -> bool { self.0 > i32::MIN }
    open spec fn neg_spec(self) -> Fixed { arbitrary() }
}

impl std::ops::Sub for Fixed {
    type Output = Self;
//@ fn src/tables.rs | impl std::ops::Sub for Fixed | sub
//@ ret r
//@ spec
    ensures in32(self.0 - rhs.0) ==> r.0 == self.0 - rhs.0
//@ end
}

impl std::ops::Div for Fixed {
    type Output = Self;
//@ fn src/tables.rs | impl std::ops::Div for Fixed | div
//@ ret r
//@ spec
    ensures
        rhs.0 == 0 ==> r.0 == 0x7FFFFFFF,
        // 16.16 quotient, truncated toward zero, for a positive divisor (the only case default_normalize and avar use after their guards)
        rhs.0 > 0 && self.0 >= 0 && in32((self.0 as int * 65536) / (rhs.0 as int)) ==> r.0 == (self.0 as int * 65536) / (rhs.0 as int),
        rhs.0 > 0 && self.0 < 0 && in32(-((-(self.0 as int) * 65536) / (rhs.0 as int))) ==> r.0 == -((-(self.0 as int) * 65536) / (rhs.0 as int)),
//@ after let b =
        proof { lemma_shl16_i64(a); }
//@ end
}

impl std::ops::Neg for Fixed {
    type Output = Self;
//@ fn src/tables.rs | impl std::ops::Neg for Fixed | neg
//@ ret r
//@ spec
    ensures r.0 == -self.0      // precondition self.0 > i32::MIN comes from NegSpecImpl::neg_req above
//@ end
}

impl From<i32> for Fixed {
//@ fn src/tables.rs | impl From<i32> for Fixed | from
//@ ret r
//@ spec
    ensures -0x8000 <= value < 0x8000 ==> r.0 == value * 65536
//@ before Fixed::from_raw
        proof { if -0x8000 <= value < 0x8000 { lemma_shl16_i32(value); } }
//@ end
}
impl vstd::std_specs::convert::FromSpecImpl<i32> for Fixed {
    open spec fn obeys_from_spec() -> bool { false }
    open spec fn from_spec(v: i32) -> Fixed { arbitrary() }
}

impl Fixed {
//@ fn src/tables.rs | impl Fixed | from_raw
//@ ret r
//@ spec
    ensures r.0 == value
//@ end
}

/// the OpenType default normalisation of `coord` on an axis, as an exact rational scaled by 65536, rounded toward zero
pub open spec fn norm_spec(min: int, def: int, max: int, coord: int) -> int {
    let c = if coord < min { min } else if coord > max { max } else { coord };
    if c < def { -(((def - c) * 65536) / (def - min)) }
    else if c > def { ((c - def) * 65536) / (max - def) }
    else { 0 }
}

/// 0 < d <= m  ==>  0 <= d*65536/m <= 65536, with equality at d == m
pub proof fn lemma_ratio(d: int, m: int)
    requires 0 < d <= m
    ensures 0 <= (d * 65536) / m <= 65536, d == m ==> (d * 65536) / m == 65536
{
    vstd::arithmetic::div_mod::lemma_div_pos_is_pos(d * 65536, m);
    assert(d * 65536 <= m * 65536) by(nonlinear_arith) requires d <= m;
    vstd::arithmetic::div_mod::lemma_div_is_ordered(d * 65536, m * 65536, m);
    vstd::arithmetic::div_mod::lemma_div_multiples_vanish(65536, m);
    assert(m * 65536 == 65536 * m) by(nonlinear_arith);
}

//@ fn src/tables/variable_fonts/fvar.rs | default_normalize
//@ ret r
//@ rename-re \b(\w+)\.clamp\( => ord_clamp(\1, 
//@ before let normalised_value
    proof {
        let c = coord.0 as int; let def = axis.default_value.0 as int; let min = axis.min_value.0 as int; let max = axis.max_value.0 as int;
        if c < def { lemma_ratio(def - c, def - min); }
        if c > def { lemma_ratio(c - def, max - def); }
    }
//@ spec
    requires
        axis.min_value.0 <= axis.default_value.0 <= axis.max_value.0,
        axis.max_value.0 - axis.min_value.0 < 0x8000_0000,
    ensures
        // the result is the specification's value (clamp, linear map of [min,default] to [-1,0] and [default,max] to [0,1]),
        // exact up to truncation of the 16.16 quotient, and lies in [-1, 1]
        r.0 == norm_spec(axis.min_value.0 as int, axis.default_value.0 as int, axis.max_value.0 as int, coord.0 as int),
        -65536 <= r.0 <= 65536,
        // minimum, default and maximum map to exactly -1, 0, +1 on every non-degenerate side
        coord.0 == axis.default_value.0 ==> r.0 == 0,
        coord.0 <= axis.min_value.0 && axis.min_value.0 < axis.default_value.0 ==> r.0 == -65536,
        coord.0 >= axis.max_value.0 && axis.max_value.0 > axis.default_value.0 ==> r.0 == 65536,
//@ end

/// C13 "monotone non-decreasing in the user coordinate": a lemma over default_normalize's postcondition (two calls, same axis)
pub proof fn lemma_norm_monotone(min: int, def: int, max: int, c1: int, c2: int)
    requires min <= def <= max, c1 <= c2
    ensures norm_spec(min, def, max, c1) <= norm_spec(min, def, max, c2)
{
    let a = if c1 < min { min } else if c1 > max { max } else { c1 };
    let b = if c2 < min { min } else if c2 > max { max } else { c2 };
    assert(a <= b);
    if b < def {
        assert((def - b) * 65536 <= (def - a) * 65536) by(nonlinear_arith) requires def - b <= def - a;
        vstd::arithmetic::div_mod::lemma_div_is_ordered((def - b) * 65536, (def - a) * 65536, def - min);
    } else if a < def {
        vstd::arithmetic::div_mod::lemma_div_pos_is_pos((def - a) * 65536, def - min);
        if b > def { vstd::arithmetic::div_mod::lemma_div_pos_is_pos((b - def) * 65536, max - def); }
    } else if a > def {
        assert((a - def) * 65536 <= (b - def) * 65536) by(nonlinear_arith) requires a - def <= b - def;
        vstd::arithmetic::div_mod::lemma_div_is_ordered((a - def) * 65536, (b - def) * 65536, max - def);
    } else {
        if b > def { vstd::arithmetic::div_mod::lemma_div_pos_is_pos((b - def) * 65536, max - def); }
    }
}

// ---- avar: accuracy / monotonicity of the composition SegmentMap::normalize evaluates (lemmas over the operator contracts) ----
/// the 16.16 composition SegmentMap::normalize evaluates strictly inside a segment (Kani unit C13_seg shows the code computes it)
pub open spec fn seg_ratio(v: int, f0: int, f1: int) -> int { ((v - f0) * 65536) / (f1 - f0) }
pub open spec fn seg_value(v: int, f0: int, t0: int, f1: int, t1: int) -> int { t0 + (seg_ratio(v, f0, f1) * (t1 - t0)) / 65536 }

/// accuracy: the computed value lies between the knots and within 3 units of 16.16 (less than one unit of 2.14) below the exact
/// piecewise-linear value  t0 + (v - f0)(t1 - t0)/(f1 - f0)
pub proof fn lemma_segment_accuracy(v: int, f0: int, t0: int, f1: int, t1: int)
    requires f0 < v < f1, t0 <= t1, t1 - t0 <= 131072
    ensures
        t0 <= seg_value(v, f0, t0, f1, t1) <= t1,
        (seg_value(v, f0, t0, f1, t1) - t0) * (f1 - f0) <= (v - f0) * (t1 - t0),
        (seg_value(v, f0, t0, f1, t1) - t0) * (f1 - f0) > (v - f0) * (t1 - t0) - 3 * (f1 - f0),
{
    let d = f1 - f0; let n = v - f0; let w = t1 - t0;
    let ratio = (n * 65536) / d;
    let prod = (ratio * w) / 65536;
    assert(n * 65536 >= 0) by(nonlinear_arith) requires n > 0;
    vstd::arithmetic::div_mod::lemma_fundamental_div_mod(n * 65536, d);
    vstd::arithmetic::div_mod::lemma_mod_bound(n * 65536, d);
    vstd::arithmetic::div_mod::lemma_div_pos_is_pos(n * 65536, d);
    assert(d * ratio <= n * 65536 < d * ratio + d);
    assert(ratio >= 0);
    // ratio <= 65536
    assert(ratio <= 65536) by(nonlinear_arith) requires d * ratio <= n * 65536, n < d, d > 0, ratio >= 0;
    assert(ratio * w >= 0) by(nonlinear_arith) requires ratio >= 0, w >= 0;
    vstd::arithmetic::div_mod::lemma_fundamental_div_mod(ratio * w, 65536);
    vstd::arithmetic::div_mod::lemma_mod_bound(ratio * w, 65536);
    vstd::arithmetic::div_mod::lemma_div_pos_is_pos(ratio * w, 65536);
    assert(65536 * prod <= ratio * w < 65536 * prod + 65536);
    // prod <= w
    assert(prod <= w) by(nonlinear_arith) requires 65536 * prod <= ratio * w, ratio <= 65536, w >= 0, prod >= 0;
    // upper: prod * d <= n * w
    assert(prod * d <= n * w) by(nonlinear_arith) requires 65536 * prod <= ratio * w, d * ratio <= n * 65536, w >= 0, d > 0, prod >= 0, ratio >= 0;
    // lower: prod * d > n * w - 3 d
    assert(prod * d > n * w - 3 * d) by(nonlinear_arith)
        requires ratio * w < 65536 * prod + 65536, n * 65536 < d * ratio + d, 0 <= w <= 131072, d > 0, prod >= 0, ratio >= 0, n > 0;
}

/// monotone inside a segment (the to-coordinates being non-decreasing)
pub proof fn lemma_segment_monotone(v: int, v2: int, f0: int, t0: int, f1: int, t1: int)
    requires f0 < v <= v2 < f1, t0 <= t1
    ensures seg_value(v, f0, t0, f1, t1) <= seg_value(v2, f0, t0, f1, t1)
{
    let d = f1 - f0; let w = t1 - t0;
    assert((v - f0) * 65536 <= (v2 - f0) * 65536) by(nonlinear_arith) requires v <= v2;
    vstd::arithmetic::div_mod::lemma_div_is_ordered((v - f0) * 65536, (v2 - f0) * 65536, d);
    let r1 = seg_ratio(v, f0, f1); let r2 = seg_ratio(v2, f0, f1);
    assert(r1 * w <= r2 * w) by(nonlinear_arith) requires r1 <= r2, w >= 0;
    vstd::arithmetic::div_mod::lemma_div_is_ordered(r1 * w, r2 * w, 65536);
}

// reachability witness for default_normalize's precondition (vacuity guard): wght 100 / 400 / 900 at 650 -> 0.5
fn witness_default_normalize() {
    let axis = VariationAxisRecord { axis_tag: 0, min_value: Fixed(100 * 65536), default_value: Fixed(400 * 65536), max_value: Fixed(900 * 65536), flags: 0, axis_name_id: 0 };
    let r = default_normalize(&axis, Fixed(650 * 65536));
    assert(r.0 == 32768) by { assert(((650 * 65536 - 400 * 65536) * 65536) / (900 * 65536 - 400 * 65536) == 32768int) by(nonlinear_arith); }
}

} // verus!
fn main() {}
