//@ unit C17_khmer
//@ props C17 C02
//@ strength proved-unbounded
//@ min-verified 3
//@ assume a Vec<char> holds fewer than usize::MAX/2 elements (Rust allocation limit), stated as a precondition
//@ unverified sort_by_modified_combining_class (std stable sort; out of reach)
use vstd::prelude::*;
verus! {

/// Khmer two-part vowels (U+17BE, U+17BF, U+17C0, U+17C4, U+17C5) get the pre-base part U+17C1 inserted before them; nothing else changes
pub open spec fn is_split_vowel(c: char) -> bool { c == '\u{17BE}' || c == '\u{17BF}' || c == '\u{17C0}' || c == '\u{17C4}' || c == '\u{17C5}' }
pub open spec fn khmer_pieces(c: char) -> Seq<char> { if is_split_vowel(c) { seq!['\u{17C1}', c] } else { seq![c] } }
pub open spec fn khmer_decomposed(s: Seq<char>) -> Seq<char>
    decreases s.len()
{
    if s.len() == 0 { Seq::empty() } else { khmer_decomposed(s.drop_last()) + khmer_pieces(s.last()) }
}
proof fn lemma_step(s: Seq<char>, k: int)
    requires 0 <= k < s.len()
    ensures khmer_decomposed(s.subrange(0, k + 1)) == khmer_decomposed(s.subrange(0, k)) + khmer_pieces(s[k])
{
    let t = s.subrange(0, k + 1);
    assert(t.drop_last() =~= s.subrange(0, k));
    assert(t.last() == s[k]);
}

//@ fn src/scripts/khmer.rs | decompose_matra
//@ attr #[verifier::loop_isolation(false)]
//@ before let mut i = 0;
    let ghost orig = cs@;
    let ghost mut k: int = 0;
//@ loop 1
        invariant 0 <= k <= orig.len(), i <= 2 * k, orig.len() < usize::MAX / 2,
            i == khmer_decomposed(orig.subrange(0, k)).len(),
            cs@ == khmer_decomposed(orig.subrange(0, k)) + orig.subrange(k, orig.len() as int),
        decreases orig.len() - k,
//@ before match cs[i]
        let ghost done = khmer_decomposed(orig.subrange(0, k));
        let ghost rest = orig.subrange(k + 1, orig.len() as int);
        proof { assert(cs@[i as int] == orig[k]); lemma_step(orig, k); assert(cs@ =~= done + seq![orig[k]] + rest); }
//@ loop-end 1
        proof {
            assert(cs@ =~= (done + khmer_pieces(orig[k])) + rest);
            assert(orig.subrange(k + 1, orig.len() as int) =~= rest);
            k = k + 1;
        }
//@ spec
    requires old(cs)@.len() < usize::MAX / 2
    ensures final(cs)@ == khmer_decomposed(old(cs)@)
//@ end

} // verus!
fn main() {}
