//@ unit C09_hdr
//@ props C09 C01
//@ strength proved-unbounded
//@ min-verified 15
//@ assume `U32Be::write` / `U16Be::write` on a WriteBuffer append the big-endian bytes of the value and never fail (contract stub; the real writers are decided by Kani unit C15_tabs::prim_roundtrip)
//@ assume `u16::try_from(usize)` is routed through a rule-5 wrapper with std's documented contract (Ok(v) iff v <= 0xFFFF; the error converts to WriteError::BadValue, src/error.rs)
//@ assume BTreeMap::len is specified by vstd (number of entries of the map view)
//@ assume `u16::leading_zeros` is routed through a rule-5 wrapper with std's documented contract (16 minus the bit length of the value)
//@ unverified FontBuilderWithHead::data / write_table_directory (iterator adaptors over BTreeMap keys, assert_eq!, Wrapping arithmetic)
// Verification unit C09_hdr (property C09): the sfnt header FontBuilder writes has the search fields the OpenType
// specification prescribes: searchRange = 16 * 2^floor(log2 numTables), entrySelector = floor(log2 numTables),
// rangeShift = 16 * numTables - searchRange - and a table count the 16-bit fields cannot describe is an error, not a panic.
use vstd::prelude::*;
use std::collections::BTreeMap;
verus! {

//@ item src/error.rs | enum WriteError | derive=
pub struct WriteBuffer { pub data: Vec<u8> }
pub struct U32Be;
pub struct U16Be;
pub struct Placeholder<T, HostType> { pub offset: usize, pub length: usize, pub marker: core::marker::PhantomData<T>, pub host: core::marker::PhantomData<HostType> }
//@ item src/tables.rs | enum IndexToLocFormat | derive=Copy,Clone
//@ item src/subset.rs | struct FontBuilder | derive=
//@ item src/subset.rs | struct FontBuilderWithHead | derive=

pub open spec fn be16(v: u16) -> Seq<u8> { seq![(v / 0x100) as u8, (v % 0x100) as u8] }
pub open spec fn be32(v: u32) -> Seq<u8> { seq![(v / 0x1000000) as u8, (v / 0x10000 % 0x100) as u8, (v / 0x100 % 0x100) as u8, (v % 0x100) as u8] }
impl U32Be {
    #[verifier::external_body]
    pub fn write(ctxt: &mut WriteBuffer, val: u32) -> (r: Result<(), WriteError>)
        ensures r is Ok, final(ctxt).data@ == old(ctxt).data@ + be32(val)
    { unimplemented!() }
}
impl U16Be {
    #[verifier::external_body]
    pub fn write(ctxt: &mut WriteBuffer, val: u16) -> (r: Result<(), WriteError>)
        ensures r is Ok, final(ctxt).data@ == old(ctxt).data@ + be16(val)
    { unimplemented!() }
}
#[verifier::external_body]
pub fn u16_from_usize(v: usize) -> (r: Result<u16, WriteError>)
    ensures v <= 0xFFFF ==> r == Ok::<u16, WriteError>(v as u16), v > 0xFFFF ==> r == Err::<u16, WriteError>(WriteError::BadValue)
{ unimplemented!() }

/// floor(log2 n) for 1 <= n <= 0xFFFF (0 for n = 0), written out from the OpenType definition of entrySelector
pub open spec fn floor_log2(n: int) -> int
    decreases n
{
    if n <= 1 { 0 } else { 1 + floor_log2(n / 2) }
}
pub open spec fn pow2(k: int) -> int
    decreases k
{
    if k <= 0 { 1 } else { 2 * pow2(k - 1) }
}
proof fn lemma_log2_bounds(n: int)
    requires 1 <= n
    ensures pow2(floor_log2(n)) <= n < 2 * pow2(floor_log2(n)), 0 <= floor_log2(n)
    decreases n
{
    if n > 1 { lemma_log2_bounds(n / 2); }
}
proof fn lemma_log2_unique(n: int, k: int)
    requires 1 <= n, 0 <= k, pow2(k) <= n < 2 * pow2(k)
    ensures floor_log2(n) == k
    decreases k
{
    if k == 0 { assert(pow2(0) == 1); assert(n == 1); }
    else { assert(pow2(k) == 2 * pow2(k - 1)); assert(n >= 2); lemma_log2_unique(n / 2, k - 1); }
}
proof fn lemma_pow2_values()
    ensures pow2(0) == 1, pow2(1) == 2, pow2(2) == 4, pow2(3) == 8, pow2(4) == 16, pow2(5) == 32, pow2(6) == 64, pow2(7) == 128, pow2(8) == 256,
        pow2(9) == 512, pow2(10) == 1024, pow2(11) == 2048, pow2(12) == 4096, pow2(13) == 8192, pow2(14) == 16384, pow2(15) == 32768, pow2(16) == 65536
{
    reveal_with_fuel(pow2, 18);
}
/// std's documented contract of u16::leading_zeros (rule-5 wrapper): 16 minus the bit length of the value
pub open spec fn bit_length(n: int) -> int
    decreases n
{
    if n <= 0 { 0 } else { 1 + bit_length(n / 2) }
}
#[verifier::external_body]
pub fn u16_leading_zeros_w(v: u16) -> (r: u32)
    ensures r == 16 - bit_length(v as int)
{ unimplemented!() }
proof fn lemma_bit_length(n: int)
    requires 1 <= n
    ensures bit_length(n) == floor_log2(n) + 1
    decreases n
{
    if n > 1 { lemma_bit_length(n / 2); } else { assert(bit_length(0) == 0); }
}
proof fn lemma_log2_u16(n: int)
    requires 1 <= n <= 0xFFFF
    ensures floor_log2(n) <= 15
{
    lemma_log2_bounds(n); lemma_pow2_values();
    if floor_log2(n) >= 16 { lemma_pow2_mono(16, floor_log2(n)); }
}
proof fn lemma_pow2_mono(a: int, b: int)
    requires 0 <= a <= b
    ensures pow2(a) <= pow2(b)
    decreases b
{
    if a < b { lemma_pow2_mono(a, b - 1); lemma_pow2_pos(b - 1); }
}
proof fn lemma_pow2_pos(k: int)
    ensures pow2(k) >= 1
    decreases k
{
    if k > 0 { lemma_pow2_pos(k - 1); }
}
proof fn lemma_shl(n: u16)
    requires n <= 15
    ensures (1u16 << n) == pow2(n as int)
{
    lemma_pow2_values();
    assert(n <= 15 ==> (1u16 << n) == (if n == 0 { 1u16 } else if n == 1 { 2u16 } else if n == 2 { 4u16 } else if n == 3 { 8u16 } else if n == 4 { 16u16 }
        else if n == 5 { 32u16 } else if n == 6 { 64u16 } else if n == 7 { 128u16 } else if n == 8 { 256u16 } else if n == 9 { 512u16 } else if n == 10 { 1024u16 }
        else if n == 11 { 2048u16 } else if n == 12 { 4096u16 } else if n == 13 { 8192u16 } else if n == 14 { 16384u16 } else { 32768u16 })) by(bit_vector);
}

//@ fn src/subset.rs | max_power_of_2
//@ ret r
//@ rename-re num\.leading_zeros\(\) => u16_leading_zeros_w(num)
//@ before? 15u16.saturating_sub
    proof { if num >= 1 { lemma_bit_length(num as int); lemma_log2_u16(num as int); lemma_log2_bounds(num as int); } else { assert(bit_length(0) == 0); } }
//@ spec
    ensures r == floor_log2(num as int), r <= 15
//@ end

impl FontBuilderWithHead {
//@ fn src/subset.rs | impl FontBuilderWithHead | write_offset_table
//@ ret r
//@ rename-re u16::try_from\(([^;]*?)\)\? => u16_from_usize(\1)?
//@ after? let n = max_power_of_2(num_tables);
        proof { lemma_pow2_values(); lemma_shl(n); if num_tables >= 1 { lemma_log2_bounds(num_tables as int); } }
//@ spec
    ensures
        // success: the 12-byte sfnt header of the OpenType specification
        r is Ok ==> self.inner.tables@.len() <= 0xFFFF && final(font).data@ == old(font).data@
            + be32(self.inner.sfnt_version)
            + be16(self.inner.tables@.len() as u16)
            + be16((16 * pow2(floor_log2(self.inner.tables@.len() as int))) as u16)
            + be16(floor_log2(self.inner.tables@.len() as int) as u16)
            + be16((16 * self.inner.tables@.len() - 16 * pow2(floor_log2(self.inner.tables@.len() as int))) as u16),
        r is Ok ==> 1 <= self.inner.tables@.len() && 16 * self.inner.tables@.len() <= 0xFFFF,
        // every non-empty table set whose search fields fit 16 bits is accepted
        1 <= self.inner.tables@.len() && 16 * self.inner.tables@.len() <= 0xFFFF ==> r is Ok,
//@ end
}

} // verus!
fn main() {}
