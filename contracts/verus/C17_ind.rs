//@ unit C17_ind
//@ props C17 C02
//@ strength proved-unbounded
//@ min-verified 4
//@ assume split_matra's table is abstracted as an uninterpreted function here; its entries (the documented vowel splits) are checked by Kani unit C17_tabs
//@ unverified sort_by_modified_combining_class (std stable sort + split_mut closure: out of reach for both verifiers, measured) ; constrain_vowel's full content-preservation contract (only index safety + termination here)
use vstd::prelude::*;
verus! {

//@ item src/scripts/indic.rs | enum MatraSplit | derive=
//@ item src/scripts/indic.rs | enum InsertConstraint | derive=
pub const DOTTED_CIRCLE: char = '\u{25CC}';

pub uninterp spec fn split_spec(ch: char) -> MatraSplit;
pub uninterp spec fn constraint_spec(c1: char, c2: char) -> InsertConstraint;

#[verifier::external_body]
pub fn split_matra(ch: char) -> (r: MatraSplit) ensures r == split_spec(ch) { unimplemented!() }
#[verifier::external_body]
pub fn vowel_constraint(c1: char, c2: char) -> (r: InsertConstraint) ensures r == constraint_spec(c1, c2) { unimplemented!() }

/// the documented decomposition of one character: itself, or its two / three parts in order
pub open spec fn pieces(ch: char) -> Seq<char> {
    match split_spec(ch) {
        MatraSplit::None => seq![ch],
        MatraSplit::Two(a, b) => seq![a, b],
        MatraSplit::Three(a, b, c) => seq![a, b, c],
    }
}
/// the text with every character replaced by its decomposition, order kept
pub open spec fn decomposed(s: Seq<char>) -> Seq<char>
    decreases s.len()
{
    if s.len() == 0 { Seq::empty() } else { decomposed(s.drop_last()) + pieces(s.last()) }
}

proof fn lemma_decomposed_step(s: Seq<char>, k: int)
    requires 0 <= k < s.len()
    ensures decomposed(s.subrange(0, k + 1)) == decomposed(s.subrange(0, k)) + pieces(s[k])
{
    let t = s.subrange(0, k + 1);
    assert(t.drop_last() =~= s.subrange(0, k));
    assert(t.last() == s[k]);
}

//@ fn src/scripts/indic.rs | decompose_matra
//@ attr #[verifier::loop_isolation(false)]
//@ before let mut i = 0;
    let ghost orig = cs@;
    let ghost mut k: int = 0;
//@ loop 1
        invariant 0 <= k <= orig.len(), i <= cs@.len(), i <= 3 * k, cs@.len() == i + orig.len() - k, orig.len() * 3 <= usize::MAX,
            i == decomposed(orig.subrange(0, k)).len(),
            cs@ == decomposed(orig.subrange(0, k)) + orig.subrange(k, orig.len() as int),
            (i < cs@.len()) == (k < orig.len()),
        decreases orig.len() - k,
//@ before i += match split_matra
        proof {
            assert(cs@[i as int] == orig[k]);
            lemma_decomposed_step(orig, k);
        }
        let ghost pre = cs@;
        let ghost done = decomposed(orig.subrange(0, k));
        let ghost rest = orig.subrange(k + 1, orig.len() as int);
        proof { assert(pre =~= done + seq![orig[k]] + rest); k = k + 1; }
//@ after-all? cs.insert(i + 1, c2);
                proof { assert(cs@ =~= done + seq![c1, c2] + rest); }
//@ after? cs.insert(i + 2, c3);
                proof { assert(cs@ =~= done + seq![c1, c2, c3] + rest); }
//@ loop-end 1
        proof {
            assert(decomposed(orig.subrange(0, k)) == done + pieces(orig[k - 1]));
            assert(orig.subrange(k, orig.len() as int) =~= rest);
            assert(cs@ =~= decomposed(orig.subrange(0, k)) + orig.subrange(k, orig.len() as int));
        }
//@ spec
    requires old(cs)@.len() * 3 <= usize::MAX
    ensures final(cs)@ == decomposed(old(cs)@)
//@ end

} // verus!
fn main() {}
