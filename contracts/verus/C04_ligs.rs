//@ unit C04_ligs
//@ props C04 C02 C01
//@ strength proved-unbounded
//@ min-verified 6
//@ assume MatchType::match_front carries the contract PROVED in unit C04_seq, restated over glyph ids: a true result means a forward walk exists - one position per table entry, each the nearest non-skipped glyph after its predecessor (the acceptance clause of the table is not needed here)
//@ assume Ligature::apply carries the contract PROVED in unit C04_lig (its precondition `enough` is what this unit establishes; clauses on length and skip count restated)
//@ assume LigatureSubst::apply_glyph is proved in unit L_subst; here it returns some ligature set, none, or an error
//@ assume RawGlyph is reduced to its glyph id (the other fields do not occur in these functions); "skipped" is a property of the glyph id / GDEF classes (uninterpreted, Kani unit C04_flag)
//@ unverified which ligature of a set is tried first is the code's loop order (first match wins: stated in the postcondition only as "the returned ligature matches")
// Verification unit C04_ligs (properties C04, C02): ligature lookup and application around Ligature::apply.
//   * Ligature::matches == true  ==>  the run holds |components| non-skipped glyphs after i: exactly the precondition under which unit C04_lig
//     proves `panic!("ran out of glyphs")` unreachable (lemma_walk_enough: induction over the forward walk);
//   * ligaturesubst_would_apply only returns a ligature for which matches() held; ligaturesubst applies exactly that one:
//     Ok(Some((removed, skip))): the run shrank by removed = |components| and i + skip + 1 <= old length (the contract units C02_lookup and
//     C02_subst rely on); otherwise the run's length is unchanged.
use vstd::prelude::*;
verus! {

//@ item src/error.rs | enum ParseError | derive=
//@ item src/context.rs | enum IgnoreMarks | derive=Copy,Clone
//@ item src/context.rs | struct MatchType | derive=Copy,Clone
//@ item src/layout.rs | struct Ligature | derive=
//@ item src/layout.rs | struct LigatureSet | derive=

pub struct GDEFTable { pub opaque: u8 }
pub struct RawGlyph<T> { pub glyph_index: u16, pub extra_data: T }
pub trait GlyphData: Clone {}
pub struct LigatureSubst { pub opaque: u8 }
pub enum GlyphTable<'a> { Empty, ById(&'a [u16]) }

pub uninterp spec fn matches_glyph(mt: MatchType, gdef: Option<&GDEFTable>, glyph_index: u16) -> bool;

/// the run holds n more non-skipped glyphs from position `from` on (precondition of Ligature::apply in unit C04_lig)
pub open spec fn enough<T>(s: Seq<RawGlyph<T>>, mt: MatchType, gdef: Option<&GDEFTable>, from: int, n: int) -> bool
    decreases s.len() - from
{
    if n <= 0 { true } else if from < 0 || from >= s.len() { false }
    else if matches_glyph(mt, gdef, s[from].glyph_index) { enough(s, mt, gdef, from + 1, n - 1) } else { enough(s, mt, gdef, from + 1, n) }
}

/// a forward walk (contract of match_front, unit C04_seq): js[k] is the nearest non-skipped glyph after js[k-1] (after `start` for k = 0)
pub open spec fn walk<T>(s: Seq<RawGlyph<T>>, mt: MatchType, gdef: Option<&GDEFTable>, start: int, js: Seq<int>) -> bool {
    forall|k: int| 0 <= k < js.len() ==> {
        let prev = if k == 0 { start } else { js[k - 1] };
        prev < #[trigger] js[k] < s.len() && matches_glyph(mt, gdef, s[js[k]].glyph_index)
    }
}

/// skipping forward to a non-skipped glyph at j keeps `enough`
proof fn lemma_reach<T>(s: Seq<RawGlyph<T>>, mt: MatchType, gdef: Option<&GDEFTable>, from: int, j: int, n: int)
    requires 0 <= from <= j < s.len(), n >= 1, matches_glyph(mt, gdef, s[j].glyph_index), enough(s, mt, gdef, j + 1, n - 1)
    ensures enough(s, mt, gdef, from, n)
    decreases j - from
{
    if from < j {
        lemma_reach(s, mt, gdef, from + 1, j, n);
        // whether or not s[from] is skipped, enough(from + 1, ..) with at least n - 1 suffices; monotone in n
        if matches_glyph(mt, gdef, s[from].glyph_index) { lemma_mono(s, mt, gdef, from + 1, n); }
    }
}
/// needing fewer glyphs is easier
proof fn lemma_mono<T>(s: Seq<RawGlyph<T>>, mt: MatchType, gdef: Option<&GDEFTable>, from: int, n: int)
    requires enough(s, mt, gdef, from, n), from >= 0
    ensures enough(s, mt, gdef, from, n - 1)
    decreases s.len() - from
{
    if n - 1 > 0 && from < s.len() {
        if matches_glyph(mt, gdef, s[from].glyph_index) { lemma_mono(s, mt, gdef, from + 1, n - 1); } else { lemma_mono(s, mt, gdef, from + 1, n); }
    }
}
/// a forward walk of n positions after `start` shows that n non-skipped glyphs follow `start`
proof fn lemma_walk_enough<T>(s: Seq<RawGlyph<T>>, mt: MatchType, gdef: Option<&GDEFTable>, start: int, js: Seq<int>)
    requires walk(s, mt, gdef, start, js), start >= -1
    ensures enough(s, mt, gdef, start + 1, js.len() as int)
    decreases js.len()
{
    if js.len() > 0 {
        let rest = js.subrange(1, js.len() as int);
        assert(start < js[0] < s.len());
        assert forall|k: int| 0 <= k < rest.len() implies ({
            let prev = if k == 0 { js[0] } else { rest[k - 1] };
            prev < #[trigger] rest[k] < s.len() && matches_glyph(mt, gdef, s[rest[k]].glyph_index)
        }) by {
            assert(rest[k] == js[k + 1]);
            if k > 0 { assert(rest[k - 1] == js[k]); }
        }
        lemma_walk_enough(s, mt, gdef, js[0], rest);
        lemma_reach(s, mt, gdef, start + 1, js[0], js.len() as int);
    }
}

pub open spec fn has_walk<T>(s: Seq<RawGlyph<T>>, mt: MatchType, gdef: Option<&GDEFTable>, start: int, n: int) -> bool {
    exists|js: Seq<int>| js.len() == n && walk(s, mt, gdef, start, js)
}
/// applied automatically wherever match_front's postcondition is in scope (the body of Ligature::matches is a single call expression)
pub broadcast proof fn lemma_has_walk_enough<T>(s: Seq<RawGlyph<T>>, mt: MatchType, gdef: Option<&GDEFTable>, start: int, n: int)
    requires #[trigger] has_walk(s, mt, gdef, start, n), start >= -1
    ensures enough(s, mt, gdef, start + 1, n)
{
    let js = choose|js: Seq<int>| js.len() == n && walk(s, mt, gdef, start, js);
    lemma_walk_enough(s, mt, gdef, start, js);
}

impl MatchType {
    /// contract proved in unit C04_seq (restated over glyph ids, table by glyph id)
    #[verifier::external_body]
    pub fn match_front<T>(self, opt_gdef_table: Option<&GDEFTable>, glyph_table: &GlyphTable<'_>, glyphs: &[RawGlyph<T>], index: usize, last_index: &mut usize) -> (r: bool)
        ensures r && glyph_table is ById ==> has_walk(glyphs@, self, opt_gdef_table, index as int, glyph_table->ById_0@.len() as int),
    { unimplemented!() }
}

pub open spec fn lig_matches<T>(l: Ligature, mt: MatchType, gdef: Option<&GDEFTable>, i: int, s: Seq<RawGlyph<T>>) -> bool {
    enough(s, mt, gdef, i + 1, l.component_glyphs@.len() as int)
}

impl Ligature {
//@ fn src/gsub.rs | impl Ligature | matches
//@ ret r
//@ before? let mut last_index = 0;
        broadcast use lemma_has_walk_enough;
//@ spec
    ensures r ==> lig_matches(*self, match_type, opt_gdef_table, i as int, glyphs@)
//@ end

    /// contract proved in unit C04_lig (length and skip-count clauses)
    #[verifier::external_body]
    pub fn apply<T: GlyphData>(&self, match_type: MatchType, opt_gdef_table: Option<&GDEFTable>, i: usize, glyphs: &mut Vec<RawGlyph<T>>) -> (r: usize)
        requires i < old(glyphs)@.len(), old(glyphs)@.len() < usize::MAX,
            enough(old(glyphs)@, match_type, opt_gdef_table, i + 1, self.component_glyphs@.len() as int),
        ensures final(glyphs)@.len() == old(glyphs)@.len() - self.component_glyphs@.len(),
            (r as int) + i + 1 <= old(glyphs)@.len(),
    { unimplemented!() }
}

impl LigatureSubst {
    #[verifier::external_body]
    pub fn apply_glyph(&self, glyph: u16) -> (r: Result<Option<&LigatureSet>, ParseError>) { unimplemented!() }
}

//@ fn src/gsub.rs | ligaturesubst_would_apply
//@ ret r
//@ spec
    requires i < glyphs@.len()
    ensures r is Ok && r->Ok_0 is Some ==> lig_matches(*r->Ok_0->Some_0, match_type, opt_gdef_table, i as int, glyphs@)
//@ end

//@ fn src/gsub.rs | ligaturesubst
//@ ret r
//@ spec
    requires i < old(glyphs)@.len(), old(glyphs)@.len() < usize::MAX
    ensures
        r is Ok && r->Ok_0 is Some ==> final(glyphs)@.len() == old(glyphs)@.len() - r->Ok_0->Some_0.0 && r->Ok_0->Some_0.1 + i + 1 <= old(glyphs)@.len(),
        !(r is Ok && r->Ok_0 is Some) ==> final(glyphs)@.len() == old(glyphs)@.len(),
//@ end

} // verus!
fn main() {}
