//@ unit C17_thai_v
//@ props C17 C02
//@ strength proved-unbounded
//@ min-verified 10
//@ assume `cs[j..=i].rotate_right(1)` is routed through the rule-5 wrapper `slice_rotate_right_1` carrying std's documented contract of slice::rotate_right (the last element of the window moves to its front, the others shift up by one)
//@ assume slice::swap carries std's documented contract (assume_specification; unused by the current body)
//@ assume sort_by_modified_combining_class is abstracted by an uninterpreted function of its input (std stable sort; out of reach for both engines)
//@ unverified sort_by_modified_combining_class; the known limitation that `for i in 0..cs.len()` visits only the original length (a SARA AM pushed beyond it by earlier insertions is not split) is part of the specification function below, not hidden
// Verification unit C17_thai_v (property C17): the Thai / Lao SARA AM rule of reorder_marks. Each U+0E33 (U+0EB3) among the
// first n characters becomes NIKHAHIT U+0E4D (NIGGAHITA U+0ECD) + SARA AA U+0E32 (U+0EB2); the NIKHAHIT is placed in front
// of the maximal run of above-base marks that precedes the vowel, and nothing else moves.
use vstd::prelude::*;
verus! {

pub open spec fn split_am(c: char) -> Option<(char, char)> {
    if c == '\u{0E33}' { Some(('\u{0E4D}', '\u{0E32}')) } else if c == '\u{0EB3}' { Some(('\u{0ECD}', '\u{0EB2}')) } else { None }
}
/// above-base marks of the Thai and Lao blocks (OpenType shaping documents, Thai/Lao mark classes)
pub open spec fn is_above(c: char) -> bool {
    c == '\u{0E31}' || ('\u{0E34}' <= c && c <= '\u{0E37}') || ('\u{0E47}' <= c && c <= '\u{0E4E}')
    || c == '\u{0EB1}' || ('\u{0EB4}' <= c && c <= '\u{0EB7}') || c == '\u{0EBB}' || ('\u{0EC8}' <= c && c <= '\u{0ECD}')
}
/// start of the maximal run of above-base marks that ends just before position i
pub open spec fn run_start(s: Seq<char>, i: int) -> int
    decreases i
{
    if 0 < i <= s.len() && is_above(s[i - 1]) { run_start(s, i - 1) } else { i }
}
/// the documented effect of visiting position i
pub open spec fn am_step(s: Seq<char>, i: int) -> Seq<char> {
    if 0 <= i < s.len() && split_am(s[i]) is Some {
        let j = run_start(s, i);
        s.subrange(0, j) + seq![split_am(s[i])->Some_0.0] + s.subrange(j, i) + seq![split_am(s[i])->Some_0.1] + s.subrange(i + 1, s.len() as int)
    } else { s }
}
pub open spec fn am_steps(s: Seq<char>, k: int) -> Seq<char>
    decreases k
{
    if k <= 0 { s } else { am_step(am_steps(s, k - 1), k - 1) }
}
pub uninterp spec fn spec_mcc_sorted(s: Seq<char>) -> Seq<char>;

proof fn lemma_run_start_bounds(s: Seq<char>, i: int)
    requires 0 <= i <= s.len()
    ensures 0 <= run_start(s, i) <= i, forall|k: int| run_start(s, i) <= k < i ==> is_above(#[trigger] s[k]),
        run_start(s, i) > 0 ==> !is_above(s[run_start(s, i) - 1])
    decreases i
{
    if 0 < i && is_above(s[i - 1]) { lemma_run_start_bounds(s, i - 1); }
}
/// the run start only depends on the prefix before i
proof fn lemma_run_start_prefix(s: Seq<char>, t: Seq<char>, i: int)
    requires 0 <= i <= s.len(), i <= t.len(), forall|k: int| 0 <= k < i ==> s[k] == t[k]
    ensures run_start(s, i) == run_start(t, i)
    decreases i
{
    if 0 < i { if is_above(s[i - 1]) { lemma_run_start_prefix(s, t, i - 1); } }
}
/// what the inner loop computes: j is the run start once the element before j is not above-base and all of j..i are
proof fn lemma_run_start_found(s: Seq<char>, i: int, j: int)
    requires 0 <= j <= i <= s.len(), forall|k: int| j <= k < i ==> is_above(#[trigger] s[k]), j == 0 || !is_above(s[j - 1])
    ensures run_start(s, i) == j
    decreases i - j
{
    if j < i { assert(is_above(s[i - 1])); lemma_run_start_found(s, i - 1, j); }
}
proof fn lemma_steps_len(s: Seq<char>, k: int)
    requires 0 <= k
    ensures s.len() <= am_steps(s, k).len() <= s.len() + k
    decreases k
{
    if k > 0 { lemma_steps_len(s, k - 1); let p = am_steps(s, k - 1); if 0 <= k - 1 < p.len() && split_am(p[k - 1]) is Some { lemma_run_start_bounds(p, k - 1); } }
}

/// std's documented contract of slice::swap (not in vstd); present so that a body using it is still decided
pub assume_specification<T>[ <[T]>::swap ](s: &mut [T], a: usize, b: usize)
    requires a < old(s)@.len(), b < old(s)@.len()
    ensures final(s)@ == old(s)@.update(a as int, old(s)@[b as int]).update(b as int, old(s)@[a as int]);

#[verifier::external_body]
pub fn slice_rotate_right_1(v: &mut Vec<char>, j: usize, i: usize)
    requires j <= i < old(v)@.len()
    ensures final(v)@ == old(v)@.subrange(0, j as int) + seq![old(v)@[i as int]] + old(v)@.subrange(j as int, i as int) + old(v)@.subrange(i + 1, old(v)@.len() as int)
{ unimplemented!() }

#[verifier::external_body]
pub fn sort_by_modified_combining_class(cs: &mut Vec<char>)
    ensures final(cs)@ == spec_mcc_sorted(old(cs)@)
{ unimplemented!() }

//@ fn src/scripts/thai_lao.rs | split_am_vowel
//@ ret r
//@ spec
    ensures r == split_am(c)
//@ end

//@ fn src/scripts/thai_lao.rs | is_abovebase_mark
//@ ret r
//@ spec
    ensures r == is_above(c)
//@ end

//@ fn src/scripts/thai_lao.rs | reorder_marks
//@ attr #[verifier::loop_isolation(false)]
//@ rename-re (\w+)\[(\w+)\.\.=(\w+)\]\.rotate_right\(1\) => slice_rotate_right_1(\1, \2, \3)
//@ before for i in
    let ghost orig = cs@;
    let ghost n = cs@.len();
//@ iter 1 it
//@ loop 1
        invariant n == orig.len(), cs@ == am_steps(orig, it.index@ as int), n <= cs@.len() <= n + it.index@, n + n <= usize::MAX,
//@ before if let Some((c1, c2)) = split_am_vowel
        let ghost pre = cs@;
//@ loop 2
                invariant j <= i < n, cs@ == pre.update(i as int, c1).insert(i + 1, c2), pre.len() >= n,
                    forall|k: int| j <= k < i ==> is_above(#[trigger] pre[k]),
                decreases j,
//@ after? cs.insert(i + 1, c2);
            proof { assert(forall|k: int| 0 <= k < i ==> cs@[k] == pre[k]); }
//@ after? slice_rotate_right_1(
            proof {
                lemma_run_start_found(pre, i as int, j as int);
                assert(cs@ =~= am_step(pre, i as int));
            }
//@ loop-end 1
        proof { assert(cs@ == am_step(pre, i as int)); assert(am_steps(orig, i + 1) == am_step(am_steps(orig, i as int), i as int)); }
//@ spec
    requires old(cs)@.len() + old(cs)@.len() <= usize::MAX
    ensures final(cs)@ == spec_mcc_sorted(am_steps(old(cs)@, old(cs)@.len() as int))
//@ end

/// specification sanity (vacuity guard): KO KAI + MAI EK + SARA AM  ->  KO KAI + NIKHAHIT + MAI EK + SARA AA
proof fn witness_spec_example()
{
    let s = seq!['\u{0E01}', '\u{0E48}', '\u{0E33}'];
    assert(am_steps(s, 0) == s);
    assert(am_step(s, 0) == s);
    assert(am_steps(s, 1) == s);
    assert(am_step(s, 1) == s);
    assert(am_steps(s, 2) == s);
    assert(run_start(s, 1) == 1);
    assert(run_start(s, 2) == 1);
    let e = seq!['\u{0E01}', '\u{0E4D}', '\u{0E48}', '\u{0E32}'];
    assert(am_step(s, 2) =~= e);
    assert(am_steps(s, 3) == e);
}

} // verus!
fn main() {}
