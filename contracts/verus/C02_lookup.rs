//@ unit C02_lookup
//@ props C02 C04 C01
//@ strength proved-unbounded for the MultipleSubst, LigatureSubst, ContextSubst and ChainContextSubst arms of gsub_apply_lookup (bodies verbatim); the SingleSubst, AlternateSubst and ReverseChainSingleSubst arms are replaced by opaque calls (see `assume`)
//@ min-verified 2
//@ assume THREE ARMS ARE DROPPED: the loops of the SingleSubst / AlternateSubst arms (`for glyph in glyphs[start..(start + length)].iter_mut()`) and of the ReverseChainSingleSubst arm (`for i in (start..start + length).rev()`) use iterator forms Verus rejects; each is replaced, by an exact-text pattern, with a call of an opaque function that needs start + length <= glyphs.len() (the slice / index bound those loops rely on) and leaves the run's length unchanged (they only assign fields of existing glyphs). If the text of such an arm changes the pattern no longer applies and the unit ends undecided, not in an alarm
//@ assume multiplesubst carries the contract PROVED in unit C04_mult (Ok(Some(n)): the run grew by n - 1; otherwise unchanged); ligaturesubst carries the contract PROVED in unit C04_ligs: Ok(Some((removed, skip))): the run shrank by `removed`, i + skip + 1 <= old length; contextsubst / chaincontextsubst return apply_subst_context's result, contract PROVED in unit C02_ctx (length change, i + input_length inside the run, span >= 1)
//@ assume a Vec<RawGlyph> holds at most usize::MAX / 2 elements (Rust allocation limit, element size >= 2): precondition here, postcondition of every stub that may grow the run
//@ assume LookupList::lookup_cache_gsub returns some cached lookup or an error; Rc is replaced by Box (only dereferenced); MatchType::from_lookup_flag / match_glyph are uninterpreted here (Kani unit C04_flag); `pred` may be called on any glyph
//@ unverified which glyphs each arm rewrites (content): units C04_single / C04_mult / C04_lig; SUBST_RECURSION_LIMIT threading
// Verification unit C02_lookup (properties C02, C04): the per-lookup driver. For every lookup type in the verified arms, every run and every
// behaviour of the sub-table functions allowed by their proved contracts:
//   * the cursor stays inside the run: `glyphs[i]` is in bounds at every use, no length arithmetic overflows or underflows
//     (an inconsistent nested change is an Err, not a panic);
//   * start + length <= glyphs.len() is maintained, and on Ok(r) the segment glyphs[start .. start + length] has become r glyphs:
//     the run's length changed by exactly r - length - this is the contract unit C02_frac assumes for gsub_apply_lookup;
//   * every loop terminates (the unprocessed part of the segment shrinks on every round).
use vstd::prelude::*;
verus! {

//@ item src/error.rs | enum ParseError | derive=
//@ item src/context.rs | enum IgnoreMarks | derive=Copy,Clone
//@ item src/context.rs | struct MatchType | derive=Copy,Clone

pub const SUBST_RECURSION_LIMIT: usize = 2;

pub struct GSUB { pub opaque: u8 }
pub struct GDEFTable { pub opaque: u8 }
pub struct LayoutCache<T> { pub opaque: T }
pub struct RawGlyph<T> { pub glyph_index: u16, pub extra_data: T }
pub trait GlyphData: Clone {}
#[derive(Copy, Clone)]
pub struct LookupFlag(pub u16);

pub struct SingleSubst { pub opaque: u8 }
pub struct MultipleSubst { pub opaque: u8 }
pub struct AlternateSubst { pub opaque: u8 }
pub struct LigatureSubst { pub opaque: u8 }
pub struct ContextLookup<T> { pub opaque: T }
pub struct ChainContextLookup<T> { pub opaque: T }
pub struct ReverseChainSingleSubst { pub opaque: u8 }

//@ item src/layout.rs | enum SubstLookup | derive=
//@ item src/layout.rs | struct LookupCacheItem | derive=

pub struct LookupList<T> { pub opaque: T }
pub struct LayoutTable<T> { pub opt_lookup_list: Option<LookupList<T>> }

impl LookupList<GSUB> {
    #[verifier::external_body]
    pub fn lookup_cache_gsub(&self, cache: &LayoutCache<GSUB>, lookup_index: usize) -> (r: Result<Box<LookupCacheItem<SubstLookup>>, ParseError>)
    { unimplemented!() }
}

impl MatchType {
    #[verifier::external_body]
    pub fn from_lookup_flag(lookup_flag: LookupFlag, mark_filtering_set: Option<u16>) -> (r: MatchType) { unimplemented!() }
    #[verifier::external_body]
    pub fn match_glyph<G>(self, opt_gdef_table: Option<&GDEFTable>, glyph: &G) -> (r: bool) { unimplemented!() }
}

/// dropped arm (SingleSubst): only fields of glyphs inside the segment are assigned
#[verifier::external_body]
pub fn single_arm<T: GlyphData, F: Fn(&RawGlyph<T>) -> bool>(subtables: &Vec<SingleSubst>, feature_tag: u32, match_type: MatchType, opt_gdef_table: Option<&GDEFTable>,
    glyphs: &mut Vec<RawGlyph<T>>, start: usize, length: usize, pred: &F) -> (r: Result<(), ParseError>)
    requires start + length <= old(glyphs)@.len()
    ensures final(glyphs)@.len() == old(glyphs)@.len()
{ unimplemented!() }
/// dropped arm (AlternateSubst)
#[verifier::external_body]
pub fn alternate_arm<T: GlyphData, F: Fn(&RawGlyph<T>) -> bool>(subtables: &Vec<AlternateSubst>, opt_alternate: Option<usize>, match_type: MatchType, opt_gdef_table: Option<&GDEFTable>,
    glyphs: &mut Vec<RawGlyph<T>>, start: usize, length: usize, pred: &F) -> (r: Result<(), ParseError>)
    requires start + length <= old(glyphs)@.len()
    ensures final(glyphs)@.len() == old(glyphs)@.len()
{ unimplemented!() }
/// dropped arm (ReverseChainSingleSubst)
#[verifier::external_body]
pub fn reverse_arm<T: GlyphData, F: Fn(&RawGlyph<T>) -> bool>(subtables: &Vec<ReverseChainSingleSubst>, match_type: MatchType, opt_gdef_table: Option<&GDEFTable>,
    glyphs: &mut Vec<RawGlyph<T>>, start: usize, length: usize, pred: &F) -> (r: Result<(), ParseError>)
    requires start + length <= old(glyphs)@.len()
    ensures final(glyphs)@.len() == old(glyphs)@.len()
{ unimplemented!() }

/// contract proved in unit C04_mult (length part)
#[verifier::external_body]
pub fn multiplesubst<T: GlyphData>(subtables: &Vec<MultipleSubst>, i: usize, glyphs: &mut Vec<RawGlyph<T>>) -> (r: Result<Option<usize>, ParseError>)
    requires i < old(glyphs)@.len(), old(glyphs)@.len() <= usize::MAX / 2
    ensures
        r is Ok && r->Ok_0 is Some ==> final(glyphs)@.len() == old(glyphs)@.len() + r->Ok_0->Some_0 - 1 && r->Ok_0->Some_0 <= usize::MAX / 2,
        !(r is Ok && r->Ok_0 is Some) ==> final(glyphs)@.len() == old(glyphs)@.len(),
        final(glyphs)@.len() <= usize::MAX / 2,
{ unimplemented!() }

/// contract proved in unit C04_ligs (which builds on Ligature::apply, unit C04_lig): (removed, skip)
#[verifier::external_body]
pub fn ligaturesubst<T: GlyphData>(opt_gdef_table: Option<&GDEFTable>, subtables: &Vec<LigatureSubst>, match_type: MatchType, i: usize, glyphs: &mut Vec<RawGlyph<T>>)
    -> (r: Result<Option<(usize, usize)>, ParseError>)
    requires i < old(glyphs)@.len()
    ensures
        r is Ok && r->Ok_0 is Some ==> final(glyphs)@.len() == old(glyphs)@.len() - r->Ok_0->Some_0.0 && r->Ok_0->Some_0.1 + i + 1 <= old(glyphs)@.len(),
        !(r is Ok && r->Ok_0 is Some) ==> final(glyphs)@.len() == old(glyphs)@.len(),
{ unimplemented!() }

/// contract of contextsubst / chaincontextsubst proved in unit C02_ctx: (input_length, changes)
pub open spec fn ctx_result(old_len: int, new_len: int, i: int, r: Result<Option<(usize, isize)>, ParseError>) -> bool {
    &&& r is Ok && r->Ok_0 is Some ==> new_len == old_len + r->Ok_0->Some_0.1 && i + r->Ok_0->Some_0.0 <= new_len && r->Ok_0->Some_0.0 - r->Ok_0->Some_0.1 >= 1
    &&& r is Ok && r->Ok_0 is None ==> new_len == old_len
    &&& new_len <= usize::MAX / 2
}
#[verifier::external_body]
pub fn contextsubst<T: GlyphData>(recursion_limit: usize, gsub_cache: &LayoutCache<GSUB>, lookup_list: &LookupList<GSUB>, opt_gdef_table: Option<&GDEFTable>,
    subtables: &Vec<ContextLookup<GSUB>>, feature_tag: u32, match_type: MatchType, i: usize, glyphs: &mut Vec<RawGlyph<T>>) -> (r: Result<Option<(usize, isize)>, ParseError>)
    requires i < old(glyphs)@.len(), old(glyphs)@.len() <= usize::MAX / 2
    ensures ctx_result(old(glyphs)@.len() as int, final(glyphs)@.len() as int, i as int, r)
{ unimplemented!() }
#[verifier::external_body]
pub fn chaincontextsubst<T: GlyphData>(recursion_limit: usize, gsub_cache: &LayoutCache<GSUB>, lookup_list: &LookupList<GSUB>, opt_gdef_table: Option<&GDEFTable>,
    subtables: &Vec<ChainContextLookup<GSUB>>, feature_tag: u32, match_type: MatchType, i: usize, glyphs: &mut Vec<RawGlyph<T>>) -> (r: Result<Option<(usize, isize)>, ParseError>)
    requires i < old(glyphs)@.len(), old(glyphs)@.len() <= usize::MAX / 2
    ensures ctx_result(old(glyphs)@.len() as int, final(glyphs)@.len() as int, i as int, r)
{ unimplemented!() }

/// contract proved complete by Kani harness C04_subst::length_arith
#[verifier::external_body]
pub fn checked_add(base: usize, changes: isize) -> (r: Option<usize>)
    ensures
        0 <= base + changes <= usize::MAX ==> r == Some((base + changes) as usize),
        !(0 <= base + changes <= usize::MAX) ==> r is None,
{ unimplemented!() }

//@ fn src/gsub.rs | gsub_apply_lookup
//@ ret r
//@ attr #[verifier::loop_isolation(false)]
//@ rename-re for glyph in glyphs\[start\.\.\(start \+ length\)\]\.iter_mut\(\) \{\s*if match_type\.match_glyph\(opt_gdef_table, glyph\) && pred\(glyph\) \{\s*singlesubst\(subtables, feature_tag, glyph\)\?;\s*\}\s*\} => single_arm(subtables, feature_tag, match_type, opt_gdef_table, glyphs, start, length, &pred)?;
//@ rename-re for glyph in glyphs\[start\.\.\(start \+ length\)\]\.iter_mut\(\) \{\s*if match_type\.match_glyph\(opt_gdef_table, glyph\) && pred\(glyph\) \{\s*let alternate = opt_alternate\.unwrap_or\(0\);\s*alternatesubst\(subtables, alternate, glyph\)\?;\s*\}\s*\} => alternate_arm(subtables, opt_alternate, match_type, opt_gdef_table, glyphs, start, length, &pred)?;
//@ rename-re for i in \(start\.\.start \+ length\)\.rev\(\) \{\s*if match_type\.match_glyph\(opt_gdef_table, &glyphs\[i\]\) && pred\(&glyphs\[i\]\) \{\s*reversechainsinglesubst\(opt_gdef_table, subtables, match_type, i, glyphs\)\?;\s*\}\s*\} => reverse_arm(subtables, match_type, opt_gdef_table, glyphs, start, length, &pred)?;
//@ loop 1
                    invariant start + length <= glyphs@.len(), glyphs@.len() - length == old(glyphs)@.len() - length0, glyphs@.len() <= usize::MAX / 2, start <= i,
                    decreases (if start + length >= i { start + length - i } else { 0 }),
//@ loop 2
                    invariant start + length <= glyphs@.len(), glyphs@.len() - length == old(glyphs)@.len() - length0, glyphs@.len() <= usize::MAX / 2, start <= i,
                    decreases (if start + length >= i { start + length - i } else { 0 }),
//@ loop 3
                    invariant start + length <= glyphs@.len(), glyphs@.len() - length == old(glyphs)@.len() - length0, glyphs@.len() <= usize::MAX / 2, start <= i,
                    decreases (if start + length >= i { start + length - i } else { 0 }),
//@ loop 4
                    invariant start + length <= glyphs@.len(), glyphs@.len() - length == old(glyphs)@.len() - length0, glyphs@.len() <= usize::MAX / 2, start <= i,
                    decreases (if start + length >= i { start + length - i } else { 0 }),
//@ before if let Some(ref lookup_list) = gsub_table.opt_lookup_list
    let ghost length0 = length;
//@ spec
    requires start + length <= old(glyphs)@.len(), old(glyphs)@.len() <= usize::MAX / 2,
        forall|g: &RawGlyph<T>| pred.requires((g,)),
    ensures
        r is Ok ==> start + r->Ok_0 <= final(glyphs)@.len() && final(glyphs)@.len() - r->Ok_0 == old(glyphs)@.len() - length,
        final(glyphs)@.len() <= usize::MAX / 2,
//@ end

} // verus!
fn main() {}
