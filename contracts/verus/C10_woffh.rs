//@ unit C10_woffh
//@ props C10 C01
//@ strength proved-unbounded
//@ min-verified 6
//@ assume ReadCtxt::read_u16be / read_u32be / check and ReadScope::offset_length carry the contracts proved in unit R_core (same text; bodies not repeated here)
//@ assume `usize::try_from(u32)` is routed through a rule-5 wrapper: on the 64-bit target it always succeeds with the same value
//@ assume the zlib decoder (flate2) is abstracted: the three statements that drive it (ZlibDecoder::new, Vec::new, read_to_end + map_err) are replaced by ONE call of the abstract `inflate` with an arbitrary result (rule 5, listed in extraction_drops); only the stored (uncompressed) path is specified
//@ assume ReadBuf is represented by its byte content (Cow<[u8]> is not modelled); ReadBuf::from(&[u8]) / from(Vec<u8>) keep the bytes
//@ unverified WoffFont::read / find_table_directory_entry (generic read_array + Iterator::find; Kani unit C10_woff), flate2
// Verification unit C10_woffh (property C10): the WOFF header fields come from their specified byte positions (WOFF 1.0 §3:
// signature, flavor, length, numTables, reserved, totalSfntSize, majorVersion, minorVersion, metaOffset, metaLength, metaOrigLength,
// privOffset, privLength), a non-zero reserved field or a wrong signature is refused, and a table stored uncompressed
// (compLength == origLength) is returned byte for byte.
use vstd::prelude::*;
verus! {

//@ item src/binary/read.rs | struct ReadEof
//@ item src/error.rs | enum ParseError | derive=
//@ item src/binary/read.rs | struct ReadScope | derive=Copy,Clone
//@ item src/binary/read.rs | struct ReadCtxt | derive=
//@ item src/woff.rs | const MAGIC
//@ item src/woff.rs | struct WoffHeader | derive=
//@ item src/woff.rs | struct TableDirectoryEntry | derive=

pub open spec fn be16(s: Seq<u8>, i: int) -> int { s[i] as int * 0x100 + s[i + 1] as int }
pub open spec fn be32(s: Seq<u8>, i: int) -> int { s[i] as int * 0x1000000 + s[i + 1] as int * 0x10000 + s[i + 2] as int * 0x100 + s[i + 3] as int }

pub struct ReadBuf<'a> { pub bytes: Vec<u8>, pub borrowed: Option<&'a [u8]> }
impl<'a> ReadBuf<'a> {
    pub open spec fn content(&self) -> Seq<u8> { if self.borrowed is Some { self.borrowed->Some_0@ } else { self.bytes@ } }
    #[verifier::external_body]
    pub fn from_slice(data: &'a [u8]) -> (r: ReadBuf<'a>) ensures r.content() == data@ { unimplemented!() }
    #[verifier::external_body]
    pub fn from_vec(data: Vec<u8>) -> (r: ReadBuf<'a>) ensures r.content() == data@ { unimplemented!() }
}
#[verifier::external_body]
pub fn usize_from_u32(v: u32) -> (r: Result<usize, ParseError>) ensures r == Ok::<usize, ParseError>(v as usize) { unimplemented!() }
/// flate2, abstracted
#[verifier::external_body]
pub fn inflate(data: &[u8]) -> (r: Result<Vec<u8>, ParseError>) { unimplemented!() }

impl<'a> ReadScope<'a> {
    pub open spec fn wf(&self) -> bool { self.base + self.data@.len() <= usize::MAX }
    #[verifier::external_body]
    pub fn data(&self) -> (r: &'a [u8]) ensures r@ == self.data@ { unimplemented!() }
    // contract proved in unit R_core
    #[verifier::external_body]
    pub fn offset_length(&self, offset: usize, length: usize) -> (r: Result<ReadScope<'a>, ParseError>)
        requires self.base + offset <= usize::MAX
        ensures
            r is Ok ==> r->Ok_0.base == self.base + offset && r->Ok_0.data@.len() == length && (length > 0 ==> offset + length <= self.data@.len())
                && (offset <= self.data@.len() ==> offset + length <= self.data@.len() && r->Ok_0.data@ == self.data@.subrange(offset as int, offset + length)),
            offset + length <= self.data@.len() ==> r is Ok,
    { unimplemented!() }
}
impl<'a> ReadCtxt<'a> {
    pub open spec fn wf(&self) -> bool { self.scope.wf() && self.offset <= self.scope.data@.len() }
    pub open spec fn avail(&self, n: int) -> bool { self.offset + n <= self.scope.data@.len() }
    pub open spec fn advanced(&self, old: &Self, n: int) -> bool { self.scope == old.scope && self.offset == old.offset + n }
    // contracts proved in unit R_core
    #[verifier::external_body]
    pub fn read_u16be(&mut self) -> (r: Result<u16, ParseError>)
        requires old(self).wf()
        ensures final(self).wf(),
            r is Ok ==> old(self).avail(2) && final(self).advanced(old(self), 2) && r->Ok_0 as int == be16(old(self).scope.data@, old(self).offset as int),
            r is Err ==> *final(self) == *old(self)
    { unimplemented!() }
    #[verifier::external_body]
    pub fn read_u32be(&mut self) -> (r: Result<u32, ParseError>)
        requires old(self).wf()
        ensures final(self).wf(),
            r is Ok ==> old(self).avail(4) && final(self).advanced(old(self), 4) && r->Ok_0 as int == be32(old(self).scope.data@, old(self).offset as int),
            r is Err ==> *final(self) == *old(self)
    { unimplemented!() }
    #[verifier::external_body]
    pub fn check(&self, cond: bool) -> (r: Result<(), ParseError>)
        ensures r is Ok <==> cond, r is Err ==> r->Err_0 == ParseError::BadValue
    { unimplemented!() }
}

//@ fn src/woff.rs | impl ReadBinary for WoffHeader | read
//@ assoc
//@ ret r
//@ spec
    requires old(ctxt).wf()
    ensures final(ctxt).wf(),
        r is Ok ==> ({
            let d = old(ctxt).scope.data@; let o = old(ctxt).offset as int; let h = r->Ok_0;
            &&& old(ctxt).avail(44) && final(ctxt).advanced(old(ctxt), 44)
            &&& be32(d, o) == 0x774F4646            // 'wOFF'
            &&& h.flavor as int == be32(d, o + 4)
            &&& h.length as int == be32(d, o + 8)
            &&& h.num_tables as int == be16(d, o + 12)
            &&& be16(d, o + 14) == 0                // reserved
            &&& h.total_sfnt_size as int == be32(d, o + 16)
            &&& h._major_version as int == be16(d, o + 20)
            &&& h._minor_version as int == be16(d, o + 22)
            &&& h.meta_offset as int == be32(d, o + 24)
            &&& h.meta_length as int == be32(d, o + 28)
            &&& h.meta_orig_length as int == be32(d, o + 32)
            &&& h.priv_offset as int == be32(d, o + 36)
            &&& h.priv_length as int == be32(d, o + 40)
        }),
        // a wrong signature is refused as a version error
        old(ctxt).avail(4) && be32(old(ctxt).scope.data@, old(ctxt).offset as int) != 0x774F4646 ==> r is Err,
//@ end

impl TableDirectoryEntry {
//@ fn src/woff.rs | impl TableDirectoryEntry | is_compressed
//@ ret r
//@ spec
    ensures r == (self.comp_length != self.orig_length)
//@ end

//@ fn src/woff.rs | impl TableDirectoryEntry | read_table
//@ ret r
//@ rename-re usize::try_from\(([^;]*?)\)\? => usize_from_u32(\1)?
//@ rename-re let mut z = ZlibDecoder::new\((.*?)\);\s*let mut uncompressed = Vec::new\(\);\s*z\.read_to_end\(&mut uncompressed\)\s*\.map_err\(\|_err\| ParseError::CompressionError\)\?; => let uncompressed = inflate(\1)?;
//@ rename ReadBuf::from(uncompressed) => ReadBuf::from_vec(uncompressed)
//@ rename ReadBuf::from(table_data.data()) => ReadBuf::from_slice(table_data.data())
//@ spec
    requires scope.base + self.offset <= usize::MAX
    ensures
        // stored table: exactly file[offset .. offset + compLength]
        self.comp_length == self.orig_length && r is Ok ==> r->Ok_0.content().len() == self.comp_length
            && (self.comp_length > 0 || self.offset <= scope.data@.len() ==> self.offset + self.comp_length <= scope.data@.len()
                && r->Ok_0.content() == scope.data@.subrange(self.offset as int, self.offset as int + self.comp_length as int)),
        self.comp_length == self.orig_length && self.offset + self.comp_length <= scope.data@.len() ==> r is Ok,
        // an entry that reaches beyond the file is an error, never other data
        self.comp_length > 0 && self.offset + self.comp_length > scope.data@.len() ==> r is Err,
//@ end
}

} // verus!
fn main() {}
