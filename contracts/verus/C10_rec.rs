//@ unit C10_rec
//@ props C10 C01
//@ strength proved-unbounded
//@ min-verified 4
//@ assume `usize::try_from(u32)` is routed through a rule-5 wrapper: on the 64-bit target it always succeeds with the same value (std: TryFrom<u32> for usize)
//@ assume arithmetic precondition of ReadScope::offset_length (base + offset <= usize::MAX): holds for base = 0 (a scope created by ReadScope::new on the file) on 64-bit targets because offset is a u32
//@ unverified OffsetTable::find_table_record (Iterator::find closure on the generic ReadArray; Kani unit C10_sfnt), OpenTypeFont::read / table_provider
// Verification unit C10_rec (property C10): a table directory record yields exactly the bytes file[offset..offset+length]
// or an error - never other data. ReadScope::offset_length is re-sliced and re-proved here (same contract as R_core).
use vstd::prelude::*;
verus! {

//@ item src/error.rs | enum ParseError | derive=
//@ item src/binary/read.rs | struct ReadScope
//@ item src/tables.rs | struct TableRecord | derive=Copy,Clone

#[verifier::external_body]
pub fn usize_from_u32(v: u32) -> (r: Result<usize, ParseError>) ensures r == Ok::<usize, ParseError>(v as usize) { unimplemented!() }

impl<'a> ReadScope<'a> {
    pub open spec fn wf(&self) -> bool { self.base + self.data@.len() <= usize::MAX }
    pub open spec fn window(&self, offset: int, length: int) -> Seq<u8> { self.data@.subrange(offset, offset + length) }

//@ fn src/binary/read.rs | impl<'a> ReadScope<'a> | offset_length
//@ ret r
//@ spec
    requires self.base + offset <= usize::MAX
    ensures
        r is Ok ==> r->Ok_0.base == self.base + offset
            && r->Ok_0.data@.len() == length
            && (length > 0 ==> offset + length <= self.data@.len())
            && (offset <= self.data@.len() ==> offset + length <= self.data@.len() && r->Ok_0.data@ == self.window(offset as int, length as int)),
        offset + length <= self.data@.len() ==> r is Ok,
//@ end
}

impl TableRecord {
//@ fn src/tables.rs | impl TableRecord | read_table
//@ ret r
//@ rename-re usize::try_from\(([^;]*?)\)\? => usize_from_u32(\1)?
//@ spec
    requires scope.base + self.offset <= usize::MAX
    ensures
        // the stored table, byte for byte: exactly file[offset .. offset + length]
        r is Ok ==> r->Ok_0.data@.len() == self.length
            && (self.length > 0 || self.offset <= scope.data@.len() ==> self.offset + self.length <= scope.data@.len()
                && r->Ok_0.data@ == scope.data@.subrange(self.offset as int, self.offset as int + self.length as int)),
        // a record that lies inside the file is never refused
        self.offset + self.length <= scope.data@.len() ==> r is Ok,
        // a record that reaches beyond the file is an error, never other data
        self.length > 0 && self.offset + self.length > scope.data@.len() ==> r is Err,
//@ end
}

fn witness_read_table(data: &[u8])
    requires data@.len() == 20
{
    let scope = ReadScope { base: 0, data };
    let rec = TableRecord { table_tag: 1, checksum: 0, offset: 4, length: 8 };
    let r = rec.read_table(&scope);
    assert(r is Ok);
    let rec2 = TableRecord { table_tag: 1, checksum: 0, offset: 16, length: 8 };
    let r2 = rec2.read_table(&scope);
    assert(r2 is Err);
}

} // verus!
fn main() {}
