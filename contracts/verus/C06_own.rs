//@ unit C06_own
//@ props C06 C01
//@ strength proved-unbounded
//@ min-verified 2
//@ assume `usize::try_from(u32)` is routed through a rule-5 wrapper: on the 64-bit target it always succeeds with the same value (std: TryFrom<u32> for usize)
//@ assume `u16::try_from(u32)` is routed through a rule-5 wrapper with std's documented contract (Ok(v) iff v <= 0xFFFF; the error converts to ParseError::BadValue, src/error.rs)
//@ assume the Format4 arm (trait-provided Format4::map_glyph over iterator zips) is abstracted by an uninterpreted function; it is decided by Kani unit C06_cmap
//@ unverified format 0 (Box<[u8; 256]>) is declared with an abstract array type here: only its index guard is checked
use vstd::prelude::*;
verus! {

//@ item src/error.rs | enum ParseError | derive=
//@ item src/tables/cmap.rs | struct SequentialMapGroup | derive=Copy,Clone

pub struct CmapSubtableFormat4 { pub opaque: u8 }
pub uninterp spec fn spec_format4(t: CmapSubtableFormat4, ch: u32) -> Result<Option<u16>, ParseError>;
impl CmapSubtableFormat4 {
    #[verifier::external_body]
    pub fn map_glyph(&self, ch: u32) -> (r: Result<Option<u16>, ParseError>) ensures r == spec_format4(*self, ch) { unimplemented!() }
}

//@ item src/tables/cmap.rs | mod owned | struct CmapSubtableFormat12 | derive=
//@ item src/tables/cmap.rs | mod owned | enum CmapSubtable | derive=

#[verifier::external_body]
pub fn usize_from_u32(v: u32) -> (r: Result<usize, ParseError>) ensures r == Ok::<usize, ParseError>(v as usize) { unimplemented!() }
#[verifier::external_body]
pub fn u16_from_u32(v: u32) -> (r: Result<u16, ParseError>)
    ensures v <= 0xFFFF ==> r == Ok::<u16, ParseError>(v as u16), v > 0xFFFF ==> r == Err::<u16, ParseError>(ParseError::BadValue)
{ unimplemented!() }

pub open spec fn in_group(g: SequentialMapGroup, ch: u32) -> bool { g.start_char_code <= ch <= g.end_char_code }
pub open spec fn first_group(gs: Seq<SequentialMapGroup>, ch: u32, k: int) -> bool {
    0 <= k < gs.len() && in_group(gs[k], ch) && (forall|m: int| 0 <= m < k ==> !in_group(#[trigger] gs[m], ch))
}

impl CmapSubtable {
//@ fn src/tables/cmap.rs | mod owned | impl CmapSubtable | map_glyph
//@ ret r
//@ attr #[verifier::loop_isolation(false)]
//@ rename-re usize::try_from\(([^;]*?)\)\? => usize_from_u32(\1)?
//@ rename-re u16::try_from\(([^;]*?)\)\? => u16_from_u32(\1)?
//@ iter 1 it
//@ loop 1
            invariant forall|m: int| 0 <= m < it.index@ ==> !in_group(#[trigger] groups@[m], ch),
//@ before if group.start_char_code <= ch
                        proof { assert(*group == groups@[it.index@ as int]); if in_group(*group, ch) { assert(first_group(groups@, ch, it.index@ as int)); } }
//@ spec
    ensures
        // format 6: glyphIdArray[c - firstCode]; format 10: glyphs[c - startCharCode]; outside the array: unmapped
        self is Format6 ==> ({ let fc = self->Format6_first_code as int; let a = self->Format6_glyph_id_array@;
            r == Ok::<Option<u16>, ParseError>(if ch >= fc && ch - fc < a.len() { Some(a[ch - fc]) } else { None }) }),
        self is Format10 ==> ({ let sc = self->Format10_start_char_code as int; let a = self->Format10_glyph_id_array@;
            r == Ok::<Option<u16>, ParseError>(if ch >= sc && ch - sc < a.len() { Some(a[ch - sc]) } else { None }) }),
        // format 12: FIRST group containing the code; glyph = startGlyphID + (c - startCharCode); a glyph id that does not fit 16 bits is an error
        self is Format12 && (forall|k: int| 0 <= k < self->Format12_0.groups@.len() ==> !in_group(#[trigger] self->Format12_0.groups@[k], ch)) ==> r == Ok::<Option<u16>, ParseError>(None),
        self is Format12 && (exists|k: int| #![auto] first_group(self->Format12_0.groups@, ch, k)) ==> (exists|k: int| #![auto] first_group(self->Format12_0.groups@, ch, k) && ({
            let gid = self->Format12_0.groups@[k].start_glyph_id as int + (ch - self->Format12_0.groups@[k].start_char_code) as int;
            if gid <= 0xFFFF { r == Ok::<Option<u16>, ParseError>(Some(gid as u16)) } else { r is Err } })),
        self is Format4 ==> r == spec_format4(self->Format4_0, ch),
//@ end
}

} // verus!
fn main() {}
