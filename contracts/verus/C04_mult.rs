//@ unit C04_mult
//@ props C04 C02
//@ strength proved-unbounded
//@ min-verified 8
//@ assume MultipleSubst::apply_glyph carries the contract proved in unit L_subst (stub: Ok(Some(&sequences[coverage index])) / Ok(None) / Err(BadIndex)), abstracted here by an uninterpreted function of (subtable, glyph)
//@ assume TinyVec<[char; 1]> and the bitflags type RawGlyphFlags are opaque stand-in types: `clone` returns an equal value, `set` is an uninterpreted function of (flags, bit, value)
//@ assume a Vec holds at most isize::MAX bytes (Rust allocation limit): the glyph run and a substitute sequence have at most usize::MAX/2 elements each (precondition / stub postcondition)
//@ assume T: Clone - the clone of `extra_data` is unconstrained (nothing is claimed about it)
//@ unverified gsub_apply_lookup's length bookkeeping around this call (generic over closures and the HashMap-backed lookup cache)
// Verification unit C04_mult (properties C04, C02): MultipleSubst application. The glyph at i is replaced by the sequence of the first
// sub-table that covers it; every output glyph carries the characters of the replaced glyph; glyphs before i are untouched and
// glyphs after i keep their order; an empty sequence deletes the glyph; the returned count is the sequence length.
use vstd::prelude::*;
verus! {

//@ item src/error.rs | enum ParseError | derive=
//@ item src/unicode.rs | enum VariationSelector | derive=Copy,Clone
//@ item src/gsub.rs | enum GlyphOrigin | derive=Copy,Clone
//@ item src/layout.rs | struct SequenceTable | derive=

#[verifier::external_body]
#[verifier::reject_recursive_types(A)]
pub struct TinyVec<A> { _a: core::marker::PhantomData<A> }
impl<A> Clone for TinyVec<A> {
    #[verifier::external_body]
    fn clone(&self) -> (r: Self) ensures r == *self { unimplemented!() }
}
#[derive(Copy, Clone)]
pub struct RawGlyphFlags { pub bits: u8 }
pub uninterp spec fn flags_set(f: RawGlyphFlags, bit: RawGlyphFlags, v: bool) -> RawGlyphFlags;
impl RawGlyphFlags {
    pub const MULTI_SUBST_DUP: RawGlyphFlags = RawGlyphFlags { bits: 2 };
    pub const LIGATURE: RawGlyphFlags = RawGlyphFlags { bits: 8 };
    #[verifier::external_body]
    pub fn set(&mut self, other: RawGlyphFlags, value: bool) ensures *final(self) == flags_set(*old(self), other, value) { unimplemented!() }
}
pub trait GlyphData: Clone {}

//@ item src/gsub.rs | struct RawGlyph | derive=

pub struct MultipleSubst { pub id: u64 }
pub uninterp spec fn spec_apply(s: MultipleSubst, g: u16) -> Result<Option<SequenceTable>, ParseError>;
impl MultipleSubst {
    #[verifier::external_body]
    pub fn apply_glyph(&self, glyph: u16) -> (r: Result<Option<&SequenceTable>, ParseError>)
        ensures r is Ok == spec_apply(*self, glyph) is Ok,
            r is Ok ==> (r->Ok_0 is Some) == (spec_apply(*self, glyph)->Ok_0 is Some),
            r is Ok && r->Ok_0 is Some ==> *r->Ok_0->Some_0 == spec_apply(*self, glyph)->Ok_0->Some_0,
            r is Err ==> r->Err_0 == spec_apply(*self, glyph)->Err_0,
            r is Ok && r->Ok_0 is Some ==> r->Ok_0->Some_0.substitute_glyphs@.len() <= usize::MAX / 2,
    { unimplemented!() }
}

/// the first sub-table that covers the glyph wins (an error of an earlier sub-table is reported)
pub open spec fn first_hit(subs: Seq<MultipleSubst>, g: u16, k: int) -> bool {
    0 <= k < subs.len() && !(spec_apply(subs[k], g) is Ok && spec_apply(subs[k], g)->Ok_0 is None)
    && (forall|m: int| 0 <= m < k ==> (spec_apply(#[trigger] subs[m], g) is Ok && spec_apply(subs[m], g)->Ok_0 is None))
}
pub open spec fn no_hit(subs: Seq<MultipleSubst>, g: u16) -> bool {
    forall|m: int| 0 <= m < subs.len() ==> (spec_apply(#[trigger] subs[m], g) is Ok && spec_apply(subs[m], g)->Ok_0 is None)
}

//@ fn src/gsub.rs | multiplesubst_would_apply
//@ ret r
//@ iter 1 it
//@ loop 1
        invariant i < glyphs@.len(), glyph_index == glyphs@[i as int].glyph_index,
            forall|m: int| 0 <= m < it.index@ ==> (spec_apply(#[trigger] subtables@[m], glyph_index) is Ok && spec_apply(subtables@[m], glyph_index)->Ok_0 is None),
//@ before? if let Some(sequence_table) = multiple_subst.apply_glyph
        proof {
            assert(*multiple_subst == subtables@[it.index@ as int]);
            if !(spec_apply(*multiple_subst, glyph_index) is Ok && spec_apply(*multiple_subst, glyph_index)->Ok_0 is None) {
                assert(first_hit(subtables@, glyph_index, it.index@ as int));
                assert(!no_hit(subtables@, glyph_index));
            }
        }
//@ spec
    requires i < glyphs@.len()
    ensures
        no_hit(subtables@, glyphs@[i as int].glyph_index) ==> r is Ok && r->Ok_0 is None,
        !no_hit(subtables@, glyphs@[i as int].glyph_index) ==> (exists|k: int| #![auto] first_hit(subtables@, glyphs@[i as int].glyph_index, k)
            && (spec_apply(subtables@[k], glyphs@[i as int].glyph_index) is Err ==> r is Err)
            && (spec_apply(subtables@[k], glyphs@[i as int].glyph_index) is Ok ==> r is Ok && r->Ok_0 is Some
                && *r->Ok_0->Some_0 == spec_apply(subtables@[k], glyphs@[i as int].glyph_index)->Ok_0->Some_0)),
        r is Ok && r->Ok_0 is Some ==> r->Ok_0->Some_0.substitute_glyphs@.len() <= usize::MAX / 2,
//@ end


/// what a successful multiple substitution makes of the run (GSUB lookup type 2): position i becomes the sequence, every output
/// glyph carries the characters (and variation selector) of the replaced glyph, the rest of the run is shifted, not changed
pub open spec fn expanded<T>(before: Seq<RawGlyph<T>>, after: Seq<RawGlyph<T>>, i: int, seq: Seq<u16>) -> bool {
    &&& after.len() == before.len() + seq.len() - 1
    &&& forall|k: int| 0 <= k < i ==> after[k] == before[k]
    &&& forall|k: int| i < k < before.len() ==> after[k + seq.len() - 1] == before[k]
    &&& forall|j: int| 0 <= j < seq.len() ==> (#[trigger] after[i + j]).glyph_index == seq[j] && after[i + j].unicodes == before[i].unicodes
            && after[i + j].variation == before[i].variation && after[i + j].glyph_origin == GlyphOrigin::Direct
    &&& after[i].flags == before[i].flags && after[i].liga_component_pos == before[i].liga_component_pos
    &&& forall|j: int| 1 <= j < seq.len() ==> (#[trigger] after[i + j]).liga_component_pos == 0
            && after[i + j].flags == flags_set(flags_set(before[i].flags, RawGlyphFlags::MULTI_SUBST_DUP, true), RawGlyphFlags::LIGATURE, false)
}

//@ fn src/gsub.rs | multiplesubst
//@ ret r
//@ attr #[verifier::loop_isolation(false)]
//@ before? match multiplesubst_would_apply(subtables, i, glyphs)? {
    let ghost before = glyphs@;
//@ iter 1 it
//@ loop 1
                    invariant i < glyphs@.len(), sequence_table.substitute_glyphs@.len() >= 1, sequence_table.substitute_glyphs@.len() <= usize::MAX / 2, before.len() <= usize::MAX / 2,
                        glyphs@.len() == before.len() + it.index@,
                        forall|k: int| 0 <= k < i ==> glyphs@[k] == before[k],
                        forall|k: int| i < k < before.len() ==> glyphs@[k + it.index@] == before[k],
                        glyphs@[i as int].glyph_index == sequence_table.substitute_glyphs@[0], glyphs@[i as int].unicodes == before[i as int].unicodes,
                        glyphs@[i as int].variation == before[i as int].variation, glyphs@[i as int].glyph_origin == GlyphOrigin::Direct,
                        glyphs@[i as int].flags == before[i as int].flags, glyphs@[i as int].liga_component_pos == before[i as int].liga_component_pos,
                        forall|j: int| 1 <= j <= it.index@ ==> (#[trigger] glyphs@[i + j]).glyph_index == sequence_table.substitute_glyphs@[j] && glyphs@[i + j].unicodes == before[i as int].unicodes
                            && glyphs@[i + j].variation == before[i as int].variation && glyphs@[i + j].glyph_origin == GlyphOrigin::Direct && glyphs@[i + j].liga_component_pos == 0
                            && glyphs@[i + j].flags == flags_set(flags_set(before[i as int].flags, RawGlyphFlags::MULTI_SUBST_DUP, true), RawGlyphFlags::LIGATURE, false),
//@ before? let output_glyph_index = sequence_table.substitute_glyphs[j];
                    proof { assert(j == it.index@ + 1); assert(i + j <= glyphs@.len()); }
//@ spec
    requires i < old(glyphs)@.len(), old(glyphs)@.len() <= usize::MAX / 2
    ensures
        // no sub-table covers the glyph: nothing happens
        no_hit(subtables@, old(glyphs)@[i as int].glyph_index) ==> r is Ok && r->Ok_0 is None && final(glyphs)@ == old(glyphs)@,
        !no_hit(subtables@, old(glyphs)@[i as int].glyph_index) ==> (exists|k: int| #![auto] first_hit(subtables@, old(glyphs)@[i as int].glyph_index, k) && ({
            let hit = spec_apply(subtables@[k], old(glyphs)@[i as int].glyph_index);
            &&& hit is Err ==> r is Err && final(glyphs)@ == old(glyphs)@
            &&& hit is Ok ==> ({
                let seq = hit->Ok_0->Some_0.substitute_glyphs@;
                // the count of output glyphs is returned; an empty sequence deletes the glyph
                &&& r == Ok::<Option<usize>, ParseError>(Some(seq.len() as usize))
                &&& seq.len() == 0 ==> final(glyphs)@ == old(glyphs)@.remove(i as int)
                &&& seq.len() > 0 ==> expanded(old(glyphs)@, final(glyphs)@, i as int, seq)
            })
        })),
//@ end

} // verus!
fn main() {}
