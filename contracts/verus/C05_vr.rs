//@ unit C05_vr
//@ props C05 C01
//@ strength proved-unbounded
//@ min-verified 20
//@ assume ReadCtxt::read_i16be / read_u16be carry the contracts proved in unit R_core (same text; bodies not repeated here)
//@ assume read_variation_index_at_offset is abstracted by an uninterpreted function of (scope, offset): device / variation-index tables are not decoded here
//@ unverified PairPos / SinglePos readers that pass the format and consume `size()` bytes per record (generic read_array_dep; Kani unit R_array decides the array layer)
// Verification unit C05_vr (property C05): GPOS ValueRecord decoding. A ValueRecord holds, in this order, the fields whose bit is
// set in the ValueFormat: xPlacement, yPlacement, xAdvance, yAdvance, xPlaDevice, yPlaDevice, xAdvDevice, yAdvDevice (OpenType GPOS,
// "ValueRecord"); every field is 2 bytes, absent fields are 0 / NULL, and the record is exactly 2 * popcount(format & 0xFF) bytes.
use vstd::prelude::*;
verus! {

//@ item src/binary/read.rs | struct ReadEof
//@ item src/error.rs | enum ParseError | derive=
//@ item src/binary/read.rs | struct ReadScope | derive=Copy,Clone
//@ item src/binary/read.rs | struct ReadCtxt | derive=
//@ item src/tables/variable_fonts.rs | struct DeltaSetIndexMapEntry | derive=Copy,Clone
pub type VariationIndex = DeltaSetIndexMapEntry;   // src/layout.rs: `pub(crate) type VariationIndex = crate::tables::variable_fonts::DeltaSetIndexMapEntry;` (path shortened)
//@ item src/layout.rs | struct ValueFormat | derive=Copy,Clone
//@ item src/layout.rs | struct Adjust | derive=Copy,Clone
//@ item src/layout.rs | type ValueRecord
pub mod size { pub const U16: usize = 2; }

pub open spec fn be16(s: Seq<u8>, i: int) -> int { s[i] as int * 0x100 + s[i + 1] as int }
pub open spec fn i16_at(s: Seq<u8>, i: int) -> i16 { (be16(s, i) as u16) as i16 }
pub open spec fn u16_at(s: Seq<u8>, i: int) -> u16 { be16(s, i) as u16 }

impl<'a> ReadScope<'a> {
    pub open spec fn wf(&self) -> bool { self.base + self.data@.len() <= usize::MAX }
}
impl<'a> ReadCtxt<'a> {
    pub open spec fn wf(&self) -> bool { self.scope.wf() && self.offset <= self.scope.data@.len() }
    pub open spec fn avail(&self, n: int) -> bool { self.offset + n <= self.scope.data@.len() }
    pub open spec fn advanced(&self, old: &Self, n: int) -> bool { self.scope == old.scope && self.offset == old.offset + n }
    // contracts proved in unit R_core
    #[verifier::external_body]
    pub fn read_u16be(&mut self) -> (r: Result<u16, ParseError>)
        requires old(self).wf()
        ensures final(self).wf(),
            r is Ok ==> old(self).avail(2) && final(self).advanced(old(self), 2) && r->Ok_0 as int == be16(old(self).scope.data@, old(self).offset as int),
            r is Err ==> *final(self) == *old(self)
    { unimplemented!() }
    #[verifier::external_body]
    pub fn read_i16be(&mut self) -> (r: Result<i16, ParseError>)
        requires old(self).wf()
        ensures final(self).wf(),
            r is Ok ==> old(self).avail(2) && final(self).advanced(old(self), 2) && r->Ok_0 == (be16(old(self).scope.data@, old(self).offset as int) as u16) as i16,
            r is Err ==> *final(self) == *old(self)
    { unimplemented!() }
}

pub uninterp spec fn spec_variation_index(scope: ReadScope<'_>, offset: u16) -> Result<Option<VariationIndex>, ParseError>;
#[verifier::external_body]
pub fn read_variation_index_at_offset(scope: ReadScope<'_>, offset: u16) -> (r: Result<Option<VariationIndex>, ParseError>)
    ensures r == spec_variation_index(scope, offset)
{ unimplemented!() }

// ---- OpenType GPOS ValueFormat / ValueRecord --------------------------------------------------
pub open spec fn has(f: u16, i: u16) -> bool { (f & (1u16 << i)) != 0 }
/// number of fields with index < k that are present
pub open spec fn cnt(f: u16, k: int) -> int
    decreases k
{
    if k <= 0 { 0 } else { cnt(f, k - 1) + if has(f, (k - 1) as u16) { 1int } else { 0int } }
}
/// byte offset of field k inside the record
pub open spec fn field_off(f: u16, k: int) -> int { 2 * cnt(f, k) }

//@ fn src/layout.rs | ith_bit_set
//@ ret r
//@ spec
    requires i < 16
    ensures r == has(flags, i)
//@ end

impl ValueFormat {
//@ fn src/layout.rs | impl ValueFormat | size
//@ ret r
//@ iter 1 it
//@ loop 1
            invariant num_fields == cnt(self.0, it.index@ as int), 0 <= num_fields <= it.index@,
//@ spec
    ensures r == 2 * cnt(self.0, 8)
//@ end
//@ fn src/layout.rs | impl ValueFormat | is_zero
//@ ret r
//@ spec
    ensures r == (self.0 == 0)
//@ end
//@ fn src/layout.rs | impl ValueFormat | has_x_placement
//@ ret r
//@ spec
    ensures r == has(self.0, 0)
//@ end
//@ fn src/layout.rs | impl ValueFormat | has_y_placement
//@ ret r
//@ spec
    ensures r == has(self.0, 1)
//@ end
//@ fn src/layout.rs | impl ValueFormat | has_x_advance
//@ ret r
//@ spec
    ensures r == has(self.0, 2)
//@ end
//@ fn src/layout.rs | impl ValueFormat | has_y_advance
//@ ret r
//@ spec
    ensures r == has(self.0, 3)
//@ end
//@ fn src/layout.rs | impl ValueFormat | has_x_placement_device
//@ ret r
//@ spec
    ensures r == has(self.0, 4)
//@ end
//@ fn src/layout.rs | impl ValueFormat | has_y_placement_device
//@ ret r
//@ spec
    ensures r == has(self.0, 5)
//@ end
//@ fn src/layout.rs | impl ValueFormat | has_x_advance_device
//@ ret r
//@ spec
    ensures r == has(self.0, 6)
//@ end
//@ fn src/layout.rs | impl ValueFormat | has_y_advance_device
//@ ret r
//@ spec
    ensures r == has(self.0, 7)
//@ end
}

//@ fn src/layout.rs | impl ReadBinaryDep for ValueRecord | read_dep
//@ assoc
//@ ret r
//@ before let (table_scope, value_format) = args;
        proof { reveal_with_fuel(cnt, 9); }
//@ spec
    requires old(ctxt).wf()
    ensures final(ctxt).wf(),
        // an empty format reads nothing and yields no adjustment
        args.1.0 == 0 ==> r == Ok::<ValueRecord, ParseError>(None) && *final(ctxt) == *old(ctxt),
        // otherwise: exactly the present fields, in specification order, each from its own 2-byte slot
        args.1.0 != 0 && r is Ok ==> ({
            let f = args.1.0; let d = old(ctxt).scope.data@; let o = old(ctxt).offset as int;
            &&& r->Ok_0 is Some
            &&& final(ctxt).advanced(old(ctxt), 2 * cnt(f, 8))
            &&& old(ctxt).avail(2 * cnt(f, 8))
            &&& r->Ok_0->Some_0.x_placement == (if has(f, 0) { i16_at(d, o + field_off(f, 0)) } else { 0i16 })
            &&& r->Ok_0->Some_0.y_placement == (if has(f, 1) { i16_at(d, o + field_off(f, 1)) } else { 0i16 })
            &&& r->Ok_0->Some_0.x_advance == (if has(f, 2) { i16_at(d, o + field_off(f, 2)) } else { 0i16 })
            &&& r->Ok_0->Some_0.y_advance == (if has(f, 3) { i16_at(d, o + field_off(f, 3)) } else { 0i16 })
            &&& has(f, 4) ==> Ok::<Option<VariationIndex>, ParseError>(r->Ok_0->Some_0.x_placement_variation) == spec_variation_index(args.0, u16_at(d, o + field_off(f, 4)))
            &&& has(f, 5) ==> Ok::<Option<VariationIndex>, ParseError>(r->Ok_0->Some_0.y_placement_variation) == spec_variation_index(args.0, u16_at(d, o + field_off(f, 5)))
            &&& has(f, 6) ==> Ok::<Option<VariationIndex>, ParseError>(r->Ok_0->Some_0.x_advance_variation) == spec_variation_index(args.0, u16_at(d, o + field_off(f, 6)))
            &&& has(f, 7) ==> Ok::<Option<VariationIndex>, ParseError>(r->Ok_0->Some_0.y_advance_variation) == spec_variation_index(args.0, u16_at(d, o + field_off(f, 7)))
            &&& (has(f, 4) == false) ==> r->Ok_0->Some_0.x_placement_variation is None
            &&& (has(f, 5) == false) ==> r->Ok_0->Some_0.y_placement_variation is None
            &&& (has(f, 6) == false) ==> r->Ok_0->Some_0.x_advance_variation is None
            &&& (has(f, 7) == false) ==> r->Ok_0->Some_0.y_advance_variation is None
        }),
//@ end

} // verus!
fn main() {}
