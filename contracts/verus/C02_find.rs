//@ unit C02_find
//@ props C02 C04 C05
//@ strength proved-unbounded
//@ min-verified 8
//@ assume MatchType::match_glyph is abstracted as an uninterpreted predicate of (match type, GDEF, glyph); its conformance to the lookup-flag rule is Kani unit C04_flag
//@ assume GDEFTable is an opaque placeholder type in this unit (only passed through)
//@ unverified MatchType::find_first (iter().enumerate()) - exercised by Kani unit C04_seq
use vstd::prelude::*;
verus! {

//@ item src/context.rs | enum IgnoreMarks | derive=Copy,Clone
//@ item src/context.rs | struct MatchType | derive=Copy,Clone

pub struct GDEFTable { pub opaque: u8 }

pub trait Glyph {
    fn get_glyph_index(&self) -> u16;
}

pub uninterp spec fn skips<G>(mt: MatchType, gdef: Option<&GDEFTable>, g: &G) -> bool;

/// "matching" index: not skipped under the lookup flags
pub open spec fn m<G>(mt: MatchType, gdef: Option<&GDEFTable>, s: Seq<G>, k: int) -> bool { !skips(mt, gdef, &s[k]) }


/// `r` is what find_next(i) must return: the nearest non-skipped index after i, or None when there is none
pub open spec fn is_next<G>(mt: MatchType, gdef: Option<&GDEFTable>, s: Seq<G>, i: int, r: Option<int>) -> bool {
    match r {
        Some(j) => i < j < s.len() && m(mt, gdef, s, j) && (forall|k: int| i < k < j ==> !m(mt, gdef, s, k)),
        None => forall|k: int| i < k < s.len() ==> !m(mt, gdef, s, k),
    }
}
/// the n-th non-skipped glyph after i (n == 0: i itself), defined by iterating is_next
pub open spec fn is_nth<G>(mt: MatchType, gdef: Option<&GDEFTable>, s: Seq<G>, i: int, n: nat, r: Option<int>) -> bool
    decreases n
{
    if n == 0 { r == Some(i) } else {
        exists|mid: Option<int>| #![auto] is_next(mt, gdef, s, i, mid) && (match mid { None => r is None, Some(j) => is_nth(mt, gdef, s, j, (n - 1) as nat, r) })
    }
}

/// composing one more step at the END of an n-step walk
proof fn lemma_nth_extend<G>(mt: MatchType, gdef: Option<&GDEFTable>, s: Seq<G>, i: int, n: nat, j: int, last: Option<int>)
    requires is_nth(mt, gdef, s, i, n, Some(j)), is_next(mt, gdef, s, j, last)
    ensures is_nth(mt, gdef, s, i, n + 1, last)
    decreases n
{
    if n == 0 {
        assert(j == i);
        assert(is_nth(mt, gdef, s, j, 0, last) || true);
        // one step: mid = last
        if last is Some { assert(is_nth(mt, gdef, s, last->Some_0, 0, last)); }
        assert(is_next(mt, gdef, s, i, last));
    } else {
        let mid = choose|mid: Option<int>| #![auto] is_next(mt, gdef, s, i, mid) && (match mid { None => false, Some(k) => is_nth(mt, gdef, s, k, (n - 1) as nat, Some(j)) });
        assert(mid is Some);
        lemma_nth_extend(mt, gdef, s, mid->Some_0, (n - 1) as nat, j, last);
        assert(is_nth(mt, gdef, s, mid->Some_0, n as nat, last));
    }
}
/// a walk that runs out of glyphs stays None however many more steps are asked for
proof fn lemma_nth_none<G>(mt: MatchType, gdef: Option<&GDEFTable>, s: Seq<G>, i: int, n: nat, extra: nat)
    requires is_nth(mt, gdef, s, i, n, None), n >= 1
    ensures is_nth(mt, gdef, s, i, n + extra, None)
    decreases n
{
    let mid = choose|mid: Option<int>| #![auto] is_next(mt, gdef, s, i, mid) && (match mid { None => true, Some(k) => is_nth(mt, gdef, s, k, (n - 1) as nat, None) });
    match mid {
        None => { assert(is_nth(mt, gdef, s, i, n + extra, None)); }
        Some(k) => {
            if n - 1 == 0 { assert(false); }
            lemma_nth_none(mt, gdef, s, k, (n - 1) as nat, extra);
            assert(is_nth(mt, gdef, s, i, n + extra, None));
        }
    }
}

/// consequences used by callers (unit C02_ctx): an n-step walk never goes backwards and, when n > 0, ends inside the run
proof fn lemma_nth_bounds<G>(mt: MatchType, gdef: Option<&GDEFTable>, s: Seq<G>, i: int, n: nat, j: int)
    requires is_nth(mt, gdef, s, i, n, Some(j))
    ensures i <= j, n > 0 ==> (i < j && j < s.len())
    decreases n
{
    if n > 0 {
        let mid = choose|mid: Option<int>| #![auto] is_next(mt, gdef, s, i, mid) && (match mid { None => false, Some(k) => is_nth(mt, gdef, s, k, (n - 1) as nat, Some(j)) });
        assert(mid is Some);
        lemma_nth_bounds(mt, gdef, s, mid->Some_0, (n - 1) as nat, j);
    }
}

impl MatchType {
    #[verifier::external_body]
    pub fn match_glyph<G: Glyph>(self, opt_gdef_table: Option<&GDEFTable>, glyph: &G) -> (r: bool)
        ensures r == !skips(self, opt_gdef_table, glyph)
    { unimplemented!() }

//@ fn src/context.rs | impl MatchType | find_prev
//@ ret r
//@ attr #[verifier::loop_isolation(false)]
//@ loop 1
        invariant index <= old_index, old_index <= glyphs@.len(),
            forall|k: int| index <= k < old_index ==> !m(self, opt_gdef_table, glyphs@, k),
        decreases index,
//@ before while index > 0
        let ghost old_index = index;
//@ spec
    requires index <= glyphs@.len()
    ensures
        // the nearest non-skipped glyph before `index`, none skipped over
        r is Some ==> r->Some_0 < index,
        r is Some ==> m(self, opt_gdef_table, glyphs@, r->Some_0 as int),
        r is Some ==> (forall|k: int| r->Some_0 < k < index ==> !m(self, opt_gdef_table, glyphs@, k)),
        r is None ==> (forall|k: int| 0 <= k < index ==> !m(self, opt_gdef_table, glyphs@, k)),
//@ end

//@ fn src/context.rs | impl MatchType | find_next
//@ ret r
//@ attr #[verifier::loop_isolation(false)]
//@ loop 1
        invariant old_index <= index, index < usize::MAX,
            forall|k: int| old_index < k <= index && k < glyphs@.len() ==> !m(self, opt_gdef_table, glyphs@, k),
        decreases glyphs@.len() - index,
//@ before while index + 1 < glyphs.len()
        let ghost old_index = index;
//@ spec
    requires index < usize::MAX
    ensures
        r is Some ==> index < r->Some_0 < glyphs@.len(),
        r is Some ==> m(self, opt_gdef_table, glyphs@, r->Some_0 as int),
        r is Some ==> (forall|k: int| index < k < r->Some_0 ==> !m(self, opt_gdef_table, glyphs@, k)),
        r is None ==> (forall|k: int| index < k < glyphs@.len() ==> !m(self, opt_gdef_table, glyphs@, k)),
//@ end
//@ fn src/context.rs | impl MatchType | find_nth
//@ ret r
//@ attr #[verifier::loop_isolation(false)]
//@ before for _ in
        let ghost start = index as int;
//@ iter 1 it
//@ loop 1
            invariant index < usize::MAX, is_nth(self, opt_gdef_table, glyphs@, start, it.index@ as nat, Some(index as int)),
//@ before match self.find_next
            let ghost cur = index as int;
            let ghost done = it.index@ as nat;
//@ loop-end 1
            proof {
                // reached only through the Some arm: index is the next match after cur
                assert(is_next(self, opt_gdef_table, glyphs@, cur, Some(index as int)));
                lemma_nth_extend(self, opt_gdef_table, glyphs@, start, done, cur, Some(index as int));
            }
//@ spec
    requires index < usize::MAX, glyphs@.len() <= usize::MAX   // the second conjunct is a Rust invariant of slices
    ensures
        // count == 0 returns the current index; otherwise the count-th non-skipped glyph after `index`
        r is Some ==> is_nth(self, opt_gdef_table, glyphs@, index as int, count as nat, Some(r->Some_0 as int)),
        // derived (lemma_nth_bounds): the result is never before `index`; for count > 0 it is a later glyph of the run
        r is Some ==> index <= r->Some_0,
        r is Some && count == 0 ==> r->Some_0 == index,
        r is Some && count > 0 ==> index < r->Some_0 && r->Some_0 < glyphs@.len(),
//@ before Some(index)
        proof { lemma_nth_bounds(self, opt_gdef_table, glyphs@, start, count as nat, index as int); }
//@ end
}

} // verus!
fn main() {}
