//@ unit C02_find
//@ props C02 C04 C05
//@ strength proved-unbounded
//@ min-verified 4
//@ assume MatchType::match_glyph is abstracted as an uninterpreted predicate of (match type, GDEF, glyph); its conformance to the lookup-flag rule is Kani unit C04_flag
//@ assume GDEFTable is an opaque placeholder type in this unit (only passed through)
//@ unverified MatchType::find_first (iter().enumerate()) - exercised by Kani unit C04_seq
use vstd::prelude::*;
verus! {

//@ item src/context.rs | enum IgnoreMarks | derive=Copy,Clone
//@ item src/context.rs | struct MatchType | derive=Copy,Clone

pub struct GDEFTable { pub opaque: u8 }

pub trait Glyph {
    fn get_glyph_index(&self) -> u16;
}

pub uninterp spec fn skips<G>(mt: MatchType, gdef: Option<&GDEFTable>, g: &G) -> bool;

/// "matching" index: not skipped under the lookup flags
pub open spec fn m<G>(mt: MatchType, gdef: Option<&GDEFTable>, s: Seq<G>, k: int) -> bool { !skips(mt, gdef, &s[k]) }

impl MatchType {
    #[verifier::external_body]
    pub fn match_glyph<G: Glyph>(self, opt_gdef_table: Option<&GDEFTable>, glyph: &G) -> (r: bool)
        ensures r == !skips(self, opt_gdef_table, glyph)
    { unimplemented!() }

//@ fn src/context.rs | impl MatchType | find_prev
//@ ret r
//@ attr #[verifier::loop_isolation(false)]
//@ loop 1
        invariant index <= old_index, old_index <= glyphs@.len(),
            forall|k: int| index <= k < old_index ==> !m(self, opt_gdef_table, glyphs@, k),
        decreases index,
//@ before while index > 0
        let ghost old_index = index;
//@ spec
    requires index <= glyphs@.len()
    ensures
        // the nearest non-skipped glyph before `index`, none skipped over
        r is Some ==> r->Some_0 < index,
        r is Some ==> m(self, opt_gdef_table, glyphs@, r->Some_0 as int),
        r is Some ==> (forall|k: int| r->Some_0 < k < index ==> !m(self, opt_gdef_table, glyphs@, k)),
        r is None ==> (forall|k: int| 0 <= k < index ==> !m(self, opt_gdef_table, glyphs@, k)),
//@ end

//@ fn src/context.rs | impl MatchType | find_next
//@ ret r
//@ attr #[verifier::loop_isolation(false)]
//@ loop 1
        invariant old_index <= index, index < usize::MAX,
            forall|k: int| old_index < k <= index && k < glyphs@.len() ==> !m(self, opt_gdef_table, glyphs@, k),
        decreases glyphs@.len() - index,
//@ before while index + 1 < glyphs.len()
        let ghost old_index = index;
//@ spec
    requires index < usize::MAX
    ensures
        r is Some ==> index < r->Some_0 < glyphs@.len(),
        r is Some ==> m(self, opt_gdef_table, glyphs@, r->Some_0 as int),
        r is Some ==> (forall|k: int| index < k < r->Some_0 ==> !m(self, opt_gdef_table, glyphs@, k)),
        r is None ==> (forall|k: int| index < k < glyphs@.len() ==> !m(self, opt_gdef_table, glyphs@, k)),
//@ end
}

} // verus!
fn main() {}
