//@ unit C17_cv
//@ props C17 C02
//@ strength proved-unbounded
//@ min-verified 3
//@ rlimit 100
//@ assume vowel_constraint's table is abstracted as an uninterpreted function here; its entries are checked by Kani unit C17_tabs
//@ assume a Vec<char> holds fewer than usize::MAX/2 elements (Rust allocation limit), stated as a precondition
use vstd::prelude::*;
verus! {

//@ item src/scripts/indic.rs | enum InsertConstraint | derive=
pub const DOTTED_CIRCLE: char = '\u{25CC}';
pub uninterp spec fn constraint_spec(c1: char, c2: char) -> InsertConstraint;
#[verifier::external_body]
pub fn vowel_constraint(c1: char, c2: char) -> (r: InsertConstraint) ensures r == constraint_spec(c1, c2) { unimplemented!() }

/// the text with a dotted circle inserted between every prohibited vowel pair (scanning left to right), nothing else changed
pub open spec fn constrained(s: Seq<char>) -> Seq<char>
    decreases s.len()
{
    if s.len() < 2 { s } else {
        match constraint_spec(s[0], s[1]) {
            InsertConstraint::Between => seq![s[0], '\u{25CC}', s[1]] + constrained(s.subrange(2, s.len() as int)),
            InsertConstraint::MaybeAfter(c3) =>
                if s.len() > 2 && s[2] == c3 { seq![s[0], s[1], '\u{25CC}', s[2]] + constrained(s.subrange(3, s.len() as int)) }
                else { seq![s[0], s[1]] + constrained(s.subrange(2, s.len() as int)) },
            InsertConstraint::None => seq![s[0]] + constrained(s.subrange(1, s.len() as int)),
        }
    }
}

//@ fn src/scripts/indic.rs | constrain_vowel
//@ attr #[verifier::loop_isolation(false)]
//@ before let mut i = 0;
    let ghost orig = cs@;
    let ghost mut k: int = 0;
    let ghost mut done: Seq<char> = Seq::empty();
    proof { assert(orig.subrange(0, orig.len() as int) =~= orig); }
//@ loop 1
        invariant 0 <= k <= orig.len(), i == done.len(), i <= 2 * k, orig.len() < usize::MAX / 2,
            cs@ == done + orig.subrange(k, orig.len() as int),
            done + constrained(orig.subrange(k, orig.len() as int)) == constrained(orig),
        decreases orig.len() - k,
//@ before i += match vowel_constraint
        let ghost tail = orig.subrange(k, orig.len() as int);
        let ghost rule = constraint_spec(tail[0], tail[1]);
        proof { assert(cs@[i as int] == tail[0] && cs@[i as int + 1] == tail[1]); assert(tail.len() > 2 ==> cs@[i as int + 2] == tail[2]); }
//@ loop-end 1
        proof {
            let n = orig.len() as int;
            match rule {
                InsertConstraint::Between => {
                    let out = seq![tail[0], '\u{25CC}', tail[1]];
                    assert(tail.subrange(2, tail.len() as int) =~= orig.subrange(k + 2, n));
                    assert(cs@ =~= (done + out) + orig.subrange(k + 2, n));
                    assert(done + (out + constrained(orig.subrange(k + 2, n))) =~= (done + out) + constrained(orig.subrange(k + 2, n)));
                    done = done + out; k = k + 2;
                }
                InsertConstraint::MaybeAfter(c3) => {
                    if tail.len() > 2 && tail[2] == c3 {
                        let out = seq![tail[0], tail[1], '\u{25CC}', tail[2]];
                        assert(tail.subrange(3, tail.len() as int) =~= orig.subrange(k + 3, n));
                        assert(cs@ =~= (done + out) + orig.subrange(k + 3, n));
                        assert(done + (out + constrained(orig.subrange(k + 3, n))) =~= (done + out) + constrained(orig.subrange(k + 3, n)));
                        done = done + out; k = k + 3;
                    } else {
                        let out = seq![tail[0], tail[1]];
                        assert(tail.subrange(2, tail.len() as int) =~= orig.subrange(k + 2, n));
                        assert(cs@ =~= (done + out) + orig.subrange(k + 2, n));
                        assert(done + (out + constrained(orig.subrange(k + 2, n))) =~= (done + out) + constrained(orig.subrange(k + 2, n)));
                        done = done + out; k = k + 2;
                    }
                }
                InsertConstraint::None => {
                    let out = seq![tail[0]];
                    assert(tail.subrange(1, tail.len() as int) =~= orig.subrange(k + 1, n));
                    assert(cs@ =~= (done + out) + orig.subrange(k + 1, n));
                    assert(done + (out + constrained(orig.subrange(k + 1, n))) =~= (done + out) + constrained(orig.subrange(k + 1, n)));
                    done = done + out; k = k + 1;
                }
            }
        }
//@ spec
    requires old(cs)@.len() < usize::MAX / 2
    ensures final(cs)@ == constrained(old(cs)@)
//@ end

} // verus!
fn main() {}
