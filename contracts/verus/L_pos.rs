//@ unit L_pos
//@ props C05 C02
//@ strength proved-unbounded
//@ min-verified 9
//@ assume Coverage::glyph_coverage_value and ClassDef::glyph_class_value are used through their contracts (proved in L_cov); abstracted here as uninterpreted functions
//@ assume struct invariants established by the sub-table readers (not verified here): every Class1Record holds class2_count Class2Records; every BaseRecord and every ligature ComponentRecord holds mark_class_count anchors. They are stated as preconditions (wf).
//@ unverified the sub-table readers, ValueRecord decoding, gpos.rs callers and iteration strategies
use vstd::prelude::*;
use std::rc::Rc;
verus! {

//@ item src/error.rs | enum ParseError | derive=
//@ item src/layout.rs | enum Coverage | derive=
//@ item src/layout.rs | struct CoverageRangeRecord | derive=
//@ item src/layout.rs | enum ClassDef | derive=
//@ item src/layout.rs | struct ClassRangeRecord | derive=
//@ item src/tables/variable_fonts.rs | struct DeltaSetIndexMapEntry | derive=Copy,Clone
pub type VariationIndex = DeltaSetIndexMapEntry;
//@ item src/layout.rs | struct Adjust | derive=Copy,Clone
//@ item src/layout.rs | type ValueRecord
//@ item src/layout.rs | struct Anchor | derive=Copy,Clone
//@ item src/layout.rs | enum SinglePos | derive=
//@ item src/layout.rs | enum PairPos | derive=
//@ item src/layout.rs | struct PairSet | derive=
//@ item src/layout.rs | struct PairValueRecord | derive=
//@ item src/layout.rs | struct Class1Record | derive=
//@ item src/layout.rs | struct Class2Record | derive=
//@ item src/layout.rs | struct CursivePos | derive=
//@ item src/layout.rs | struct EntryExitRecord | derive=
//@ item src/layout.rs | struct MarkBasePos | derive=
//@ item src/layout.rs | struct MarkArray | derive=
//@ item src/layout.rs | struct MarkRecord | derive=
//@ item src/layout.rs | struct BaseArray | derive=
//@ item src/layout.rs | struct BaseRecord | derive=
//@ item src/layout.rs | struct MarkLigPos | derive=
//@ item src/layout.rs | struct LigatureArray | derive=
//@ item src/layout.rs | struct LigatureAttach | derive=
//@ item src/layout.rs | struct ComponentRecord | derive=

pub uninterp spec fn cov_index(c: Coverage, g: u16) -> Option<u16>;
pub uninterp spec fn class_of(c: ClassDef, g: u16) -> u16;

impl Coverage {
    #[verifier::external_body]
    pub fn glyph_coverage_value(&self, glyph: u16) -> (r: Option<u16>) ensures r == cov_index(*self, glyph) { unimplemented!() }
}
impl ClassDef {
    #[verifier::external_body]
    pub fn glyph_class_value(&self, glyph: u16) -> (r: u16) ensures r == class_of(*self, glyph) { unimplemented!() }
}

pub trait CheckIndex {
    spec fn spec_len(&self) -> nat;
    fn check_index(&self, index: usize) -> (r: Result<(), ParseError>)
        ensures r is Ok <==> index < self.spec_len(), r is Err ==> r->Err_0 == ParseError::BadIndex;
}
impl<T> CheckIndex for Vec<T> {
    open spec fn spec_len(&self) -> nat { self@.len() }
//@ fn src/binary/read.rs | impl<T> CheckIndex for Vec<T> | check_index
//@ end
}

impl SinglePos {
//@ fn src/layout.rs | impl SinglePos | apply
//@ ret r
//@ spec
    ensures
        // format 1: one value record for every covered glyph; format 2: the record at the coverage index
        self is Format1 ==> r is Ok && r->Ok_0 == (if cov_index(*self->Format1_coverage, glyph) is Some { self->Format1_value_record } else { None }),
        self is Format2 && cov_index(*self->Format2_coverage, glyph) is None ==> r is Ok && r->Ok_0 is None,
        self is Format2 && cov_index(*self->Format2_coverage, glyph) is Some ==> ({
            let i = cov_index(*self->Format2_coverage, glyph)->Some_0 as int;
            if i < self->Format2_value_records@.len() { r is Ok && r->Ok_0 == self->Format2_value_records@[i] } else { r is Err && r->Err_0 == ParseError::BadIndex } }),
//@ end
}

pub open spec fn first_pair(rs: Seq<PairValueRecord>, g2: u16, k: int) -> bool {
    0 <= k < rs.len() && rs[k].second_glyph == g2 && (forall|m: int| 0 <= m < k ==> (#[trigger] rs[m]).second_glyph != g2)
}

impl PairPos {
    /// reader-established invariant of the class matrix
    pub open spec fn wf(&self) -> bool {
        self is Format2 ==> (forall|i: int| 0 <= i < self->Format2_class1_records@.len() ==> (#[trigger] self->Format2_class1_records@[i]).class2_records@.len() == self->Format2_class2_count)
    }
//@ fn src/layout.rs | impl PairPos | apply
//@ ret r
//@ attr #[verifier::loop_isolation(false)]
//@ iter 1 it
//@ loop 1
        invariant forall|m: int| 0 <= m < it.index@ ==> (#[trigger] pairset.pair_value_records@[m]).second_glyph != glyph2,
//@ before if pair_value_record.second_glyph == glyph2
                        proof { assert(*pair_value_record == pairset.pair_value_records@[it.index@ as int]);
                                if pair_value_record.second_glyph == glyph2 { assert(first_pair(pairset.pair_value_records@, glyph2, it.index@ as int)); } }
//@ spec
    requires self.wf()
    ensures
        // format 1: the pair set of the first glyph's coverage index; within it the FIRST record whose second glyph matches
        self is Format1 && cov_index(*self->Format1_coverage, glyph1) is None ==> r is Ok && r->Ok_0 is None,
        self is Format1 && cov_index(*self->Format1_coverage, glyph1) is Some ==> ({
            let i = cov_index(*self->Format1_coverage, glyph1)->Some_0 as int;
            if i >= self->Format1_pairsets@.len() { r is Err && r->Err_0 == ParseError::BadIndex } else {
                let recs = self->Format1_pairsets@[i].pair_value_records@;
                r is Ok && (r->Ok_0 is Some ==> (exists|k: int| #![auto] first_pair(recs, glyph2, k) && r->Ok_0->Some_0 == (recs[k].value_record1, recs[k].value_record2)))
                        && (r->Ok_0 is None ==> (forall|k: int| 0 <= k < recs.len() ==> (#[trigger] recs[k]).second_glyph != glyph2))
            } }),
        // format 2: class matrix indexed by (class of glyph 1, class of glyph 2); classes outside the matrix are an error, never a panic
        self is Format2 && cov_index(*self->Format2_coverage, glyph1) is None ==> r is Ok && r->Ok_0 is None,
        self is Format2 && cov_index(*self->Format2_coverage, glyph1) is Some ==> ({
            let c1 = class_of(*self->Format2_classdef1, glyph1) as int;
            let c2 = class_of(*self->Format2_classdef2, glyph2) as int;
            if c1 < self->Format2_class1_records@.len() && c2 < self->Format2_class2_count {
                r is Ok && r->Ok_0 == Some((self->Format2_class1_records@[c1].class2_records@[c2].value_record1, self->Format2_class1_records@[c1].class2_records@[c2].value_record2))
            } else { r is Err && r->Err_0 == ParseError::BadIndex } }),
//@ end
}

impl CursivePos {
//@ fn src/layout.rs | impl CursivePos | apply
//@ ret r
//@ spec
    ensures
        // exit anchor of the first glyph joined to the entry anchor of the second, both taken at their coverage index
        (cov_index(*self.coverage, glyph1) is None || cov_index(*self.coverage, glyph2) is None) ==> r is Ok && r->Ok_0 is None,
        cov_index(*self.coverage, glyph1) is Some && cov_index(*self.coverage, glyph2) is Some ==> ({
            let i1 = cov_index(*self.coverage, glyph1)->Some_0 as int;
            let i2 = cov_index(*self.coverage, glyph2)->Some_0 as int;
            if i1 >= self.entry_exit_records@.len() || i2 >= self.entry_exit_records@.len() { r is Err && r->Err_0 == ParseError::BadIndex } else {
                r is Ok && r->Ok_0 == (if self.entry_exit_records@[i1].exit_anchor is Some && self.entry_exit_records@[i2].entry_anchor is Some
                    { Some((self.entry_exit_records@[i1].exit_anchor->Some_0, self.entry_exit_records@[i2].entry_anchor->Some_0)) } else { None })
            } }),
//@ end
}

impl MarkBasePos {
    pub open spec fn wf(&self) -> bool {
        forall|i: int| 0 <= i < self.base_array.base_records@.len() ==> (#[trigger] self.base_array.base_records@[i]).base_anchors@.len() == self.mark_class_count
    }
//@ fn src/layout.rs | impl MarkBasePos | apply
//@ ret r
//@ spec
    requires self.wf()
    ensures
        // the base anchor is selected by the MARK's class, the mark anchor comes from the mark record
        (cov_index(*self.base_coverage, glyph1) is None || cov_index(*self.mark_coverage, glyph2) is None) ==> r is Ok && r->Ok_0 is None,
        cov_index(*self.base_coverage, glyph1) is Some && cov_index(*self.mark_coverage, glyph2) is Some ==> ({
            let b = cov_index(*self.base_coverage, glyph1)->Some_0 as int;
            let m = cov_index(*self.mark_coverage, glyph2)->Some_0 as int;
            if b >= self.base_array.base_records@.len() || m >= self.mark_array.mark_records@.len() { r is Err && r->Err_0 == ParseError::BadIndex } else {
                let class = self.mark_array.mark_records@[m].mark_class as int;
                if class >= self.mark_class_count { r is Err && r->Err_0 == ParseError::BadIndex } else {
                    r is Ok && r->Ok_0 == (if self.base_array.base_records@[b].base_anchors@[class] is Some
                        { Some((self.base_array.base_records@[b].base_anchors@[class]->Some_0, self.mark_array.mark_records@[m].mark_anchor)) } else { None })
                } } }),
//@ end
}

impl MarkLigPos {
    pub open spec fn wf(&self) -> bool {
        forall|i: int, j: int| 0 <= i < self.ligature_array.ligature_attaches@.len() && 0 <= j < self.ligature_array.ligature_attaches@[i].component_records@.len()
            ==> (#[trigger] self.ligature_array.ligature_attaches@[i].component_records@[j]).ligature_anchors@.len() == self.mark_class_count
    }
//@ fn src/layout.rs | impl MarkLigPos | apply
//@ ret r
//@ spec
    requires self.wf()
    ensures
        // anchor of the ligature COMPONENT the mark belongs to, selected by the mark's class
        (cov_index(*self.liga_coverage, glyph1) is None || cov_index(*self.mark_coverage, glyph2) is None) ==> r is Ok && r->Ok_0 is None,
        cov_index(*self.liga_coverage, glyph1) is Some && cov_index(*self.mark_coverage, glyph2) is Some ==> ({
            let l = cov_index(*self.liga_coverage, glyph1)->Some_0 as int;
            let m = cov_index(*self.mark_coverage, glyph2)->Some_0 as int;
            if m >= self.mark_array.mark_records@.len() { r is Err && r->Err_0 == ParseError::BadIndex } else {
                let class = self.mark_array.mark_records@[m].mark_class as int;
                if class >= self.mark_class_count || l >= self.ligature_array.ligature_attaches@.len() { r is Err && r->Err_0 == ParseError::BadIndex } else {
                    let comps = self.ligature_array.ligature_attaches@[l].component_records@;
                    r is Ok && r->Ok_0 == (if liga_component_index < comps.len() && comps[liga_component_index as int].ligature_anchors@[class] is Some
                        { Some((comps[liga_component_index as int].ligature_anchors@[class]->Some_0, self.mark_array.mark_records@[m].mark_anchor)) } else { None })
                } } }),
//@ end
}

} // verus!
fn main() {}
