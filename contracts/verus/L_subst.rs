//@ unit L_subst
//@ props C04 C02
//@ strength proved-unbounded
//@ min-verified 8
//@ assume Coverage::glyph_coverage_value is used through its contract (proved in L_cov); here it is abstracted as an uninterpreted function of (coverage, glyph)
//@ assume 64-bit target: `global size_of usize == 8` (isize arithmetic of SingleSubst format 1)
//@ unverified gsub.rs callers (singlesubst, multiplesubst, alternatesubst, ligaturesubst) - Kani units C04_*
use vstd::prelude::*;
use std::rc::Rc;
verus! {

global size_of usize == 8;

//@ item src/error.rs | enum ParseError | derive=
//@ item src/layout.rs | enum Coverage | derive=
//@ item src/layout.rs | struct CoverageRangeRecord | derive=
//@ item src/layout.rs | enum SingleSubst | derive=
//@ item src/layout.rs | struct MultipleSubst | derive=
//@ item src/layout.rs | struct SequenceTable | derive=
//@ item src/layout.rs | struct AlternateSubst | derive=
//@ item src/layout.rs | struct AlternateSet | derive=
//@ item src/layout.rs | struct LigatureSubst | derive=
//@ item src/layout.rs | struct LigatureSet | derive=
//@ item src/layout.rs | struct Ligature | derive=

/// coverage index of a glyph (OpenType chapter 2), as decided by Coverage::glyph_coverage_value (contract: unit L_cov)
pub uninterp spec fn cov_index(c: Coverage, g: u16) -> Option<u16>;

impl Coverage {
    #[verifier::external_body]
    pub fn glyph_coverage_value(&self, glyph: u16) -> (r: Option<u16>)
        ensures r == cov_index(*self, glyph)
    { unimplemented!() }
}

pub trait CheckIndex {
    spec fn spec_len(&self) -> nat;
    fn check_index(&self, index: usize) -> (r: Result<(), ParseError>)
        ensures r is Ok <==> index < self.spec_len(), r is Err ==> r->Err_0 == ParseError::BadIndex;
}

impl<T> CheckIndex for Vec<T> {
    open spec fn spec_len(&self) -> nat { self@.len() }
//@ fn src/binary/read.rs | impl<T> CheckIndex for Vec<T> | check_index
//@ end
}

proof fn lemma_mask16(x: i64)
    requires -0x8000 <= x < 0x18000
    ensures 0 <= (x & 0xffff) < 0x10000, (x & 0xffff) as int == (if x < 0 { x + 0x10000 } else if x >= 0x10000 { x - 0x10000 } else { x as int })
{
    assert(0 <= (x & 0xffff) < 0x10000 && (x & 0xffff) == (if x < 0 { (x + 0x10000) as i64 } else if x >= 0x10000 { (x - 0x10000) as i64 } else { x })) by(bit_vector)
        requires -0x8000 <= x < 0x18000;
}

impl SingleSubst {
//@ fn src/layout.rs | impl SingleSubst | apply_glyph
//@ ret r
//@ after let new_glyph_index
                    proof { lemma_mask16(new_glyph_index as i64); assert((new_glyph_index & 0xffff) == ((new_glyph_index as i64) & 0xffff) as isize) by(bit_vector); }
//@ spec
    ensures
        // format 1: covered glyph -> (glyph + deltaGlyphID) modulo 65536; uncovered glyph -> no substitution
        self is Format1 && cov_index(*self->Format1_coverage, glyph) is Some ==> r is Ok && r->Ok_0 is Some
            && r->Ok_0->Some_0 as int == (glyph as int + self->Format1_delta_glyph_index as int) % 0x10000,
        self is Format1 && cov_index(*self->Format1_coverage, glyph) is None ==> r is Ok && r->Ok_0 is None,
        // format 2: substitute = substituteGlyphIDs[coverage index]; an index beyond the array is an error, never a panic
        self is Format2 && cov_index(*self->Format2_coverage, glyph) is None ==> r is Ok && r->Ok_0 is None,
        self is Format2 && cov_index(*self->Format2_coverage, glyph) is Some ==> ({
            let i = cov_index(*self->Format2_coverage, glyph)->Some_0 as int;
            if i < self->Format2_substitute_glyph_array@.len() { r is Ok && r->Ok_0 == Some(self->Format2_substitute_glyph_array@[i]) }
            else { r is Err && r->Err_0 == ParseError::BadIndex } }),
//@ end
}

impl MultipleSubst {
//@ fn src/layout.rs | impl MultipleSubst | apply_glyph
//@ ret r
//@ spec
    ensures
        cov_index(*self.coverage, glyph) is None ==> r is Ok && r->Ok_0 is None,
        cov_index(*self.coverage, glyph) is Some ==> ({
            let i = cov_index(*self.coverage, glyph)->Some_0 as int;
            if i < self.sequences@.len() { r is Ok && r->Ok_0 == Some(&self.sequences@[i]) } else { r is Err && r->Err_0 == ParseError::BadIndex } }),
//@ end
}

impl AlternateSubst {
//@ fn src/layout.rs | impl AlternateSubst | apply_glyph
//@ ret r
//@ spec
    ensures
        cov_index(*self.coverage, glyph) is None ==> r is Ok && r->Ok_0 is None,
        cov_index(*self.coverage, glyph) is Some ==> ({
            let i = cov_index(*self.coverage, glyph)->Some_0 as int;
            if i < self.alternatesets@.len() { r is Ok && r->Ok_0 == Some(&self.alternatesets@[i]) } else { r is Err && r->Err_0 == ParseError::BadIndex } }),
//@ end
}

impl LigatureSubst {
//@ fn src/layout.rs | impl LigatureSubst | apply_glyph
//@ ret r
//@ spec
    ensures
        cov_index(*self.coverage, glyph) is None ==> r is Ok && r->Ok_0 is None,
        cov_index(*self.coverage, glyph) is Some ==> ({
            let i = cov_index(*self.coverage, glyph)->Some_0 as int;
            if i < self.ligaturesets@.len() { r is Ok && r->Ok_0 == Some(&self.ligaturesets@[i]) } else { r is Err && r->Err_0 == ParseError::BadIndex } }),
//@ end
}

} // verus!
fn main() {}
