//@ unit L_cov
//@ props C04 C05 C02 C01
//@ strength proved-unbounded
//@ min-verified 5
//@ assume slice::binary_search is routed through the wrapper `slice_binary_search` carrying std's documented contract (Ok(i): element i equals the key - for any slice; Err: key absent - for sorted slices)
//@ assume OpenType requires coverage glyph arrays to be sorted; Coverage::read does not check it, so "None ==> glyph not in the array" is proved under `sorted` only
//@ unverified Coverage::glyph_count (Iterator::fold closure); Coverage::read / ClassDef::read (Kani unit L_read)
use vstd::prelude::*;
verus! {

//@ item src/layout.rs | enum Coverage | derive=
//@ item src/layout.rs | struct CoverageRangeRecord | derive=
//@ item src/layout.rs | enum ClassDef | derive=
//@ item src/layout.rs | struct ClassRangeRecord | derive=
//@ item src/layout.rs | struct MarkGlyphSets | derive=

pub open spec fn sorted_u16(s: Seq<u16>) -> bool { forall|i: int, j: int| 0 <= i < j < s.len() ==> s[i] < s[j] }

/// std's documented contract of `[T]::binary_search` (rule-5 wrapper)
#[verifier::external_body]
pub fn slice_binary_search(v: &Vec<u16>, x: &u16) -> (r: Result<usize, usize>)
    ensures
        r is Ok ==> r->Ok_0 < v@.len() && v@[r->Ok_0 as int] == *x,
        r is Err ==> r->Err_0 <= v@.len(),
        sorted_u16(v@) && r is Err ==> (forall|j: int| 0 <= j < v@.len() ==> v@[j] != *x),
{ unimplemented!() }

// ---- OpenType chapter 2 specification functions ------------------------------------------------
pub open spec fn in_cov_range(r: CoverageRangeRecord, g: u16) -> bool { r.start_glyph <= g <= r.end_glyph }
pub open spec fn first_cov_range(rs: Seq<CoverageRangeRecord>, g: u16, k: int) -> bool {
    0 <= k < rs.len() && in_cov_range(rs[k], g) && (forall|m: int| 0 <= m < k ==> !in_cov_range(#[trigger] rs[m], g))
}
pub open spec fn in_class_range(r: ClassRangeRecord, g: u16) -> bool { r.start_glyph <= g <= r.end_glyph }
pub open spec fn first_class_range(rs: Seq<ClassRangeRecord>, g: u16, k: int) -> bool {
    0 <= k < rs.len() && in_class_range(rs[k], g) && (forall|m: int| 0 <= m < k ==> !in_class_range(#[trigger] rs[m], g))
}

impl Coverage {
//@ fn src/layout.rs | impl Coverage | glyph_coverage_value
//@ ret r
//@ rename-re \b(\w+)\.binary_search\( => slice_binary_search(\1, 
//@ iter 1 it
//@ loop 1
        invariant self is Format2, *coverage_range_array == self->Format2_coverage_range_array,
            forall|m: int| 0 <= m < it.index@ ==> !in_cov_range(#[trigger] coverage_range_array@[m], glyph),
//@ before if (glyph >= coverage_range.start_glyph)
                    proof { assert(*coverage_range == coverage_range_array@[it.index@ as int]);
                            if in_cov_range(*coverage_range, glyph) { assert(first_cov_range(coverage_range_array@, glyph, it.index@ as int)); } }
//@ spec
    ensures
        // format 1: the coverage index is the position of the glyph in the glyph array
        self is Format1 && r is Some ==> (r->Some_0 as int) < self->Format1_glyph_array@.len() || self->Format1_glyph_array@.len() > 0x10000,
        self is Format1 && r is Some && self->Format1_glyph_array@.len() <= 0x10000 ==> self->Format1_glyph_array@[r->Some_0 as int] == glyph,
        self is Format1 && r is None && sorted_u16(self->Format1_glyph_array@) ==> (forall|j: int| 0 <= j < self->Format1_glyph_array@.len() ==> self->Format1_glyph_array@[j] != glyph),
        // format 2: first range containing the glyph; index = startCoverageIndex + (glyph - startGlyph), never wrapped
        self is Format2 && r is Some ==> (exists|k: int| #![auto] first_cov_range(self->Format2_coverage_range_array@, glyph, k)
            && r->Some_0 as int == self->Format2_coverage_range_array@[k].start_coverage_index + (glyph - self->Format2_coverage_range_array@[k].start_glyph)),
        self is Format2 && r is None ==> (forall|k: int| #![auto] first_cov_range(self->Format2_coverage_range_array@, glyph, k) ==>
            self->Format2_coverage_range_array@[k].start_coverage_index + (glyph - self->Format2_coverage_range_array@[k].start_glyph) > 0xFFFF),
//@ end
}

impl ClassDef {
//@ fn src/layout.rs | impl ClassDef | glyph_class_value
//@ ret r
//@ iter 1 it
//@ loop 1
        invariant self is Format2, *class_range_array == self->Format2_class_range_array,
            forall|m: int| 0 <= m < it.index@ ==> !in_class_range(#[trigger] class_range_array@[m], glyph),
//@ before if (glyph >= class_range.start_glyph)
                    proof { assert(*class_range == class_range_array@[it.index@ as int]);
                            if in_class_range(*class_range, glyph) { assert(first_class_range(class_range_array@, glyph, it.index@ as int)); } }
//@ spec
    ensures
        // format 1: class of glyph = classValueArray[glyph - startGlyph]; class 0 outside the array
        self is Format1 ==> r == (if self->Format1_start_glyph <= glyph && glyph - self->Format1_start_glyph < self->Format1_class_value_array@.len()
            { self->Format1_class_value_array@[glyph - self->Format1_start_glyph] } else { 0u16 }),
        // format 2: class of the first range containing the glyph; class 0 when no range contains it
        self is Format2 && (exists|k: int| #![auto] first_class_range(self->Format2_class_range_array@, glyph, k)) ==>
            (exists|k: int| #![auto] first_class_range(self->Format2_class_range_array@, glyph, k) && r == self->Format2_class_range_array@[k].class_value),
        self is Format2 && (forall|k: int| 0 <= k < self->Format2_class_range_array@.len() ==> !in_class_range(#[trigger] self->Format2_class_range_array@[k], glyph)) ==> r == 0,
//@ end
}

impl MarkGlyphSets {
//@ fn src/layout.rs | impl MarkGlyphSets | get
//@ ret r
//@ spec
    ensures index < self.sets@.len() ==> r == Some(&self.sets@[index as int]), index >= self.sets@.len() ==> r is None
//@ end
}

} // verus!
fn main() {}
