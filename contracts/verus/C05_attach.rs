//@ unit C05_attach
//@ props C05 C02
//@ strength proved-unbounded
//@ min-verified 20
//@ assume MarkBasePos::apply / MarkLigPos::apply / CursivePos::apply carry the contracts proved in unit L_pos; abstracted here by uninterpreted functions of (subtable, glyphs[, component])
//@ assume TinyVec<[char; 1]>, RawGlyphFlags and LookupFlag::get_rtl are opaque stand-ins (get_rtl is Kani unit C04_flag's subject)
//@ unverified the iteration strategies that choose (i1, i2) (forall_base_mark_glyph_pairs: Kani unit C05_iter; the others are closures over the lookup cache), GlyphLayout resolution of the recorded attachments (Kani unit C05_pos)
// Verification unit C05_attach (properties C05, C02): recording an attachment. For mark-to-base, mark-to-ligature and mark-to-mark the
// FIRST sub-table that yields an anchor pair decides; the mark i2 is attached to glyph i1 (an index inside the run) with
// (base anchor, mark anchor) in that order and becomes a mark; for cursive attachment glyph i1 records the exit glyph i2 with
// (exit-side anchor of the pair as the lookup returned it); no other glyph of the run changes; without a hit nothing changes.
use vstd::prelude::*;
verus! {

//@ item src/error.rs | enum ParseError | derive=
//@ item src/unicode.rs | enum VariationSelector | derive=Copy,Clone
//@ item src/gsub.rs | enum GlyphOrigin | derive=Copy,Clone
//@ item src/layout.rs | struct Anchor | derive=Copy,Clone
//@ item src/gpos.rs | enum Placement | derive=Copy,Clone

#[verifier::external_body]
#[verifier::reject_recursive_types(A)]
pub struct TinyVec<A> { _a: core::marker::PhantomData<A> }
#[derive(Copy, Clone)]
pub struct RawGlyphFlags { pub bits: u8 }
//@ item src/gsub.rs | struct RawGlyph | derive=
//@ item src/gpos.rs | struct Info | derive=

#[derive(Copy, Clone)]
pub struct LookupFlag { pub bits: u16 }
pub uninterp spec fn spec_rtl(f: LookupFlag) -> bool;
impl LookupFlag {
    #[verifier::external_body]
    pub fn get_rtl(self) -> (r: bool) ensures r == spec_rtl(self) { unimplemented!() }
}

pub struct MarkBasePos { pub id: u64 }
pub uninterp spec fn spec_markbase(s: MarkBasePos, g1: u16, g2: u16) -> Result<Option<(Anchor, Anchor)>, ParseError>;
impl MarkBasePos {
    #[verifier::external_body]
    pub fn apply(&self, glyph_index1: u16, glyph_index2: u16) -> (r: Result<Option<(Anchor, Anchor)>, ParseError>) ensures r == spec_markbase(*self, glyph_index1, glyph_index2) { unimplemented!() }
}
pub struct MarkLigPos { pub id: u64 }
pub uninterp spec fn spec_marklig(s: MarkLigPos, g1: u16, g2: u16, comp: usize) -> Result<Option<(Anchor, Anchor)>, ParseError>;
impl MarkLigPos {
    #[verifier::external_body]
    pub fn apply(&self, glyph_index1: u16, glyph_index2: u16, liga_component_index: usize) -> (r: Result<Option<(Anchor, Anchor)>, ParseError>) ensures r == spec_marklig(*self, glyph_index1, glyph_index2, liga_component_index) { unimplemented!() }
}
pub struct CursivePos { pub id: u64 }
pub uninterp spec fn spec_cursive(s: CursivePos, g1: u16, g2: u16) -> Result<Option<(Anchor, Anchor)>, ParseError>;
impl CursivePos {
    #[verifier::external_body]
    pub fn apply(&self, glyph_index1: u16, glyph_index2: u16) -> (r: Result<Option<(Anchor, Anchor)>, ParseError>) ensures r == spec_cursive(*self, glyph_index1, glyph_index2) { unimplemented!() }
}

pub open spec fn no_anchor(r: Result<Option<(Anchor, Anchor)>, ParseError>) -> bool { r == Ok::<Option<(Anchor, Anchor)>, ParseError>(None) }
/// generic "first sub-table that answers" over a sequence of per-sub-table results
pub open spec fn first_answer(rs: Seq<Result<Option<(Anchor, Anchor)>, ParseError>>) -> Result<Option<(Anchor, Anchor)>, ParseError>
    decreases rs.len()
{
    if rs.len() == 0 { Ok(None) } else if no_anchor(rs[0]) { first_answer(rs.subrange(1, rs.len() as int)) } else { rs[0] }
}
proof fn lemma_first_answer(rs: Seq<Result<Option<(Anchor, Anchor)>, ParseError>>, k: int)
    requires 0 <= k <= rs.len(), forall|m: int| 0 <= m < k ==> no_anchor(#[trigger] rs[m])
    ensures first_answer(rs) == first_answer(rs.subrange(k, rs.len() as int))
    decreases k
{
    if k > 0 {
        let t = rs.subrange(1, rs.len() as int);
        assert(forall|m: int| 0 <= m < k - 1 ==> no_anchor(#[trigger] t[m])) by { assert(forall|m: int| 0 <= m < k - 1 ==> t[m] == rs[m + 1]); }
        lemma_first_answer(t, k - 1);
        assert(t.subrange(k - 1, t.len() as int) =~= rs.subrange(k, rs.len() as int));
    } else { assert(rs.subrange(0, rs.len() as int) =~= rs); }
}
pub open spec fn markbase_results(subs: Seq<MarkBasePos>, g1: u16, g2: u16) -> Seq<Result<Option<(Anchor, Anchor)>, ParseError>> {
    Seq::new(subs.len(), |k: int| spec_markbase(subs[k], g1, g2))
}

//@ fn src/gpos.rs | gpos_lookup_markbasepos
//@ ret r
//@ iter 1 it
//@ loop 1
        invariant forall|m: int| 0 <= m < it.index@ ==> no_anchor(#[trigger] markbase_results(subtables@, glyph_index1, glyph_index2)[m]),
//@ before? if let Some((an1, an2)) = markbasepos.apply(glyph_index1, glyph_index2)? {
        proof {
            let rs = markbase_results(subtables@, glyph_index1, glyph_index2);
            assert(*markbasepos == subtables@[it.index@ as int]);
            lemma_first_answer(rs, it.index@ as int);
            assert(rs.subrange(it.index@ as int, rs.len() as int)[0] == rs[it.index@ as int]);
        }
//@ before? Ok(None)
    proof { let rs = markbase_results(subtables@, glyph_index1, glyph_index2); lemma_first_answer(rs, rs.len() as int); assert(rs.subrange(rs.len() as int, rs.len() as int).len() == 0); }
//@ spec
    ensures r == first_answer(markbase_results(subtables@, glyph_index1, glyph_index2))
//@ end

//@ fn src/gpos.rs | markbasepos
//@ ret r
//@ spec
    requires i1 < old(infos)@.len(), i2 < old(infos)@.len()
    ensures final(infos)@.len() == old(infos)@.len(),
        forall|k: int| 0 <= k < old(infos)@.len() && k != i2 ==> final(infos)@[k] == old(infos)@[k],
        ({
            let hit = first_answer(markbase_results(subtables@, old(infos)@[i1 as int].glyph.glyph_index, old(infos)@[i2 as int].glyph.glyph_index));
            &&& hit is Err ==> r is Err && final(infos)@ == old(infos)@
            &&& hit is Ok ==> r is Ok
            &&& hit is Ok && hit->Ok_0 is None ==> final(infos)@ == old(infos)@
            &&& hit is Ok && hit->Ok_0 is Some ==> final(infos)@[i2 as int].placement == Placement::MarkAnchor(i1, hit->Ok_0->Some_0.0, hit->Ok_0->Some_0.1)
                    && final(infos)@[i2 as int].is_mark && final(infos)@[i2 as int].glyph == old(infos)@[i2 as int].glyph && final(infos)@[i2 as int].kerning == old(infos)@[i2 as int].kerning
        }),
//@ end

//@ fn src/gpos.rs | gpos_lookup_markmarkpos
//@ ret r
//@ iter 1 it
//@ loop 1
        invariant forall|m: int| 0 <= m < it.index@ ==> no_anchor(#[trigger] markbase_results(subtables@, glyph_index1, glyph_index2)[m]),
//@ before? if let Some((an1, an2)) = markmarkpos.apply(glyph_index1, glyph_index2)? {
        proof {
            let rs = markbase_results(subtables@, glyph_index1, glyph_index2);
            assert(*markmarkpos == subtables@[it.index@ as int]);
            lemma_first_answer(rs, it.index@ as int);
            assert(rs.subrange(it.index@ as int, rs.len() as int)[0] == rs[it.index@ as int]);
        }
//@ before? Ok(None)
    proof { let rs = markbase_results(subtables@, glyph_index1, glyph_index2); lemma_first_answer(rs, rs.len() as int); assert(rs.subrange(rs.len() as int, rs.len() as int).len() == 0); }
//@ spec
    ensures r == first_answer(markbase_results(subtables@, glyph_index1, glyph_index2))
//@ end

//@ fn src/gpos.rs | markmarkpos
//@ ret r
//@ spec
    requires i1 < old(infos)@.len(), i2 < old(infos)@.len()
    ensures final(infos)@.len() == old(infos)@.len(),
        forall|k: int| 0 <= k < old(infos)@.len() && k != i2 ==> final(infos)@[k] == old(infos)@[k],
        ({
            let hit = first_answer(markbase_results(subtables@, old(infos)@[i1 as int].glyph.glyph_index, old(infos)@[i2 as int].glyph.glyph_index));
            &&& hit is Err ==> r is Err && final(infos)@ == old(infos)@
            &&& hit is Ok ==> r is Ok
            &&& hit is Ok && hit->Ok_0 is None ==> final(infos)@ == old(infos)@
            &&& hit is Ok && hit->Ok_0 is Some ==> final(infos)@[i2 as int].placement == Placement::MarkAnchor(i1, hit->Ok_0->Some_0.0, hit->Ok_0->Some_0.1)
                    && final(infos)@[i2 as int].is_mark && final(infos)@[i2 as int].glyph == old(infos)@[i2 as int].glyph && final(infos)@[i2 as int].kerning == old(infos)@[i2 as int].kerning
        }),
//@ end

pub open spec fn marklig_results(subs: Seq<MarkLigPos>, g1: u16, g2: u16, comp: usize) -> Seq<Result<Option<(Anchor, Anchor)>, ParseError>> {
    Seq::new(subs.len(), |k: int| spec_marklig(subs[k], g1, g2, comp))
}

//@ fn src/gpos.rs | gpos_lookup_markligpos
//@ ret r
//@ iter 1 it
//@ loop 1
        invariant forall|m: int| 0 <= m < it.index@ ==> no_anchor(#[trigger] marklig_results(subtables@, glyph_index1, glyph_index2, liga_component_index as usize)[m]),
//@ before? if let Some((an1, an2)) = markligpos.apply(
        proof {
            let rs = marklig_results(subtables@, glyph_index1, glyph_index2, liga_component_index as usize);
            assert(*markligpos == subtables@[it.index@ as int]);
            lemma_first_answer(rs, it.index@ as int);
            assert(rs.subrange(it.index@ as int, rs.len() as int)[0] == rs[it.index@ as int]);
        }
//@ before? Ok(None)
    proof { let rs = marklig_results(subtables@, glyph_index1, glyph_index2, liga_component_index as usize); lemma_first_answer(rs, rs.len() as int); assert(rs.subrange(rs.len() as int, rs.len() as int).len() == 0); }
//@ spec
    ensures r == first_answer(marklig_results(subtables@, glyph_index1, glyph_index2, liga_component_index as usize))
//@ end

//@ fn src/gpos.rs | markligpos
//@ ret r
//@ spec
    requires i1 < old(infos)@.len(), i2 < old(infos)@.len()
    ensures final(infos)@.len() == old(infos)@.len(),
        forall|k: int| 0 <= k < old(infos)@.len() && k != i2 ==> final(infos)@[k] == old(infos)@[k],
        ({
            // the ligature component the mark belongs to selects the anchor row
            let hit = first_answer(marklig_results(subtables@, old(infos)@[i1 as int].glyph.glyph_index, old(infos)@[i2 as int].glyph.glyph_index, old(infos)@[i2 as int].glyph.liga_component_pos as usize));
            &&& hit is Err ==> r is Err && final(infos)@ == old(infos)@
            &&& hit is Ok ==> r is Ok
            &&& hit is Ok && hit->Ok_0 is None ==> final(infos)@ == old(infos)@
            &&& hit is Ok && hit->Ok_0 is Some ==> final(infos)@[i2 as int].placement == Placement::MarkAnchor(i1, hit->Ok_0->Some_0.0, hit->Ok_0->Some_0.1)
                    && final(infos)@[i2 as int].is_mark && final(infos)@[i2 as int].glyph == old(infos)@[i2 as int].glyph && final(infos)@[i2 as int].kerning == old(infos)@[i2 as int].kerning
        }),
//@ end

pub open spec fn cursive_results(subs: Seq<CursivePos>, g1: u16, g2: u16) -> Seq<Result<Option<(Anchor, Anchor)>, ParseError>> {
    Seq::new(subs.len(), |k: int| spec_cursive(subs[k], g1, g2))
}

//@ fn src/gpos.rs | gpos_lookup_cursivepos
//@ ret r
//@ iter 1 it
//@ loop 1
        invariant forall|m: int| 0 <= m < it.index@ ==> no_anchor(#[trigger] cursive_results(subtables@, glyph_index1, glyph_index2)[m]),
//@ before? if let Some((an1, an2)) = cursivepos.apply(glyph_index1, glyph_index2)? {
        proof {
            let rs = cursive_results(subtables@, glyph_index1, glyph_index2);
            assert(*cursivepos == subtables@[it.index@ as int]);
            lemma_first_answer(rs, it.index@ as int);
            assert(rs.subrange(it.index@ as int, rs.len() as int)[0] == rs[it.index@ as int]);
        }
//@ before? Ok(None)
    proof { let rs = cursive_results(subtables@, glyph_index1, glyph_index2); lemma_first_answer(rs, rs.len() as int); assert(rs.subrange(rs.len() as int, rs.len() as int).len() == 0); }
//@ spec
    ensures r == first_answer(cursive_results(subtables@, glyph_index1, glyph_index2))
//@ end

//@ fn src/gpos.rs | cursivepos
//@ ret r
//@ spec
    requires i1 < old(infos)@.len(), i2 < old(infos)@.len()
    ensures final(infos)@.len() == old(infos)@.len(),
        forall|k: int| 0 <= k < old(infos)@.len() && k != i1 ==> final(infos)@[k] == old(infos)@[k],
        ({
            let hit = first_answer(cursive_results(subtables@, old(infos)@[i1 as int].glyph.glyph_index, old(infos)@[i2 as int].glyph.glyph_index));
            &&& hit is Err ==> r is Err && final(infos)@ == old(infos)@
            &&& hit is Ok ==> r is Ok
            &&& hit is Ok && hit->Ok_0 is None ==> final(infos)@ == old(infos)@
            // glyph i1 is joined to glyph i2: (exit glyph index, RIGHT_TO_LEFT flag, anchor of i2, anchor of i1) as Placement::CursiveAnchor documents
            &&& hit is Ok && hit->Ok_0 is Some ==> final(infos)@[i1 as int].placement == Placement::CursiveAnchor(i2, spec_rtl(lookup_flag), hit->Ok_0->Some_0.1, hit->Ok_0->Some_0.0)
                    && final(infos)@[i1 as int].is_mark == old(infos)@[i1 as int].is_mark && final(infos)@[i1 as int].glyph == old(infos)@[i1 as int].glyph && final(infos)@[i1 as int].kerning == old(infos)@[i1 as int].kerning
        }),
//@ end

} // verus!
fn main() {}
