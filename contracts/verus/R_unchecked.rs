//@ unit R_unchecked
//@ props C14 C01
//@ strength proved-unbounded
//@ min-verified 49
//@ note The ReadUnchecked trait is given the contract its doc comment states ("Must read exactly SIZE bytes"; unsafe because the caller
//@ note must have checked availability).  Every primitive impl, the tuple impls (generic in T1..T4) and ReadArrayIter::next are then
//@ note verified, for ALL type parameters, against that contract.
//@ assume size::U8..I64 equal mem::size_of of the primitive (1,1,2,2,4,4,8,8): Rust language fact restated because Verus cannot call size_of
//@ assume tuple SIZE sums do not overflow usize (rustc const evaluation rejects overflow, E0080): one `assume` per tuple impl in lemma_size
//@ assume trait declaration of ReadUnchecked is restated in the template with the contract attached (Verus needs the spec on the trait item); the impl bodies are sliced verbatim
use vstd::prelude::*;
use std::marker::PhantomData;
verus! {

//@ item src/binary/read.rs | struct ReadEof
//@ item src/binary/read.rs | struct ReadScope
//@ item src/binary/read.rs | struct ReadCtxt | derive=
//@ item src/binary.rs | enum U8 | derive=
//@ item src/binary.rs | enum I8 | derive=
//@ item src/binary.rs | enum U16Be | derive=
//@ item src/binary.rs | enum I16Be | derive=
//@ item src/binary.rs | enum U24Be | derive=
//@ item src/binary.rs | enum U32Be | derive=
//@ item src/binary.rs | enum I32Be | derive=
//@ item src/binary.rs | enum U64Be | derive=
//@ item src/binary.rs | enum I64Be | derive=

pub mod size {
    // src/size.rs defines these as mem::size_of::<uN>() (not callable in Verus); the values are Rust language facts (assumption, listed)
    pub const U8: usize = 1;
    pub const I8: usize = 1;
    pub const U16: usize = 2;
    pub const I16: usize = 2;
//@ item src/size.rs | const U24
    pub const U32: usize = 4;
    pub const I32: usize = 4;
    pub const U64: usize = 8;
    pub const I64: usize = 8;
}

impl<'a> ReadScope<'a> {
    pub open spec fn wf(&self) -> bool { self.base + self.data@.len() <= usize::MAX }
}

impl<'a> ReadCtxt<'a> {
    pub open spec fn wf(&self) -> bool { self.scope.wf() && self.offset <= self.scope.data@.len() }
    pub open spec fn avail(&self, n: int) -> bool { self.offset + n <= self.scope.data@.len() }
    pub open spec fn advanced(&self, old: &Self, n: int) -> bool { self.scope == old.scope && self.offset == old.offset + n }

    // contracts proved in unit R_core (same text); bodies are not needed here
    #[verifier::external_body]
    pub unsafe fn read_unchecked_u8(&mut self) -> (r: u8)
        requires old(self).avail(1) ensures final(self).advanced(old(self), 1) { unimplemented!() }
    #[verifier::external_body]
    pub unsafe fn read_unchecked_i8(&mut self) -> (r: i8)
        requires old(self).avail(1) ensures final(self).advanced(old(self), 1) { unimplemented!() }
    #[verifier::external_body]
    pub unsafe fn read_unchecked_u16be(&mut self) -> (r: u16)
        requires old(self).avail(2) ensures final(self).advanced(old(self), 2) { unimplemented!() }
    #[verifier::external_body]
    pub unsafe fn read_unchecked_i16be(&mut self) -> (r: i16)
        requires old(self).avail(2) ensures final(self).advanced(old(self), 2) { unimplemented!() }
    #[verifier::external_body]
    pub unsafe fn read_unchecked_u24be(&mut self) -> (r: u32)
        requires old(self).avail(3) ensures final(self).advanced(old(self), 3) { unimplemented!() }
    #[verifier::external_body]
    pub unsafe fn read_unchecked_u32be(&mut self) -> (r: u32)
        requires old(self).avail(4) ensures final(self).advanced(old(self), 4) { unimplemented!() }
    #[verifier::external_body]
    pub unsafe fn read_unchecked_i32be(&mut self) -> (r: i32)
        requires old(self).avail(4) ensures final(self).advanced(old(self), 4) { unimplemented!() }
    #[verifier::external_body]
    pub unsafe fn read_unchecked_u64be(&mut self) -> (r: u64)
        requires old(self).avail(8) ensures final(self).advanced(old(self), 8) { unimplemented!() }
    #[verifier::external_body]
    pub unsafe fn read_unchecked_i64be(&mut self) -> (r: i64)
        requires old(self).avail(8) ensures final(self).advanced(old(self), 8) { unimplemented!() }
}

/// Read will always succeed if sufficient bytes are available.  (restated from src/binary/read.rs:88 with its documented contract)
pub trait ReadUnchecked {
    type HostType: Sized;
    const SIZE: usize;
    /// SIZE as a mathematical integer (for tuples: the sum of the parts)
    spec fn spec_size() -> nat;
    /// SIZE (a machine constant) equals spec_size()
    proof fn lemma_size() ensures Self::SIZE as int == Self::spec_size();
    unsafe fn read_unchecked<'a>(ctxt: &mut ReadCtxt<'a>) -> (r: Self::HostType)
        requires old(ctxt).avail(Self::spec_size() as int)
        ensures final(ctxt).advanced(old(ctxt), Self::spec_size() as int);
}

impl ReadUnchecked for U8 {
    open spec fn spec_size() -> nat { Self::SIZE as nat }
    proof fn lemma_size() {}
    type HostType = u8;
//@ item src/binary/read.rs | impl ReadUnchecked for U8 | const SIZE
//@ fn src/binary/read.rs | impl ReadUnchecked for U8 | read_unchecked
//@ end
}
impl ReadUnchecked for I8 {
    open spec fn spec_size() -> nat { Self::SIZE as nat }
    proof fn lemma_size() {}
    type HostType = i8;
//@ item src/binary/read.rs | impl ReadUnchecked for I8 | const SIZE
//@ fn src/binary/read.rs | impl ReadUnchecked for I8 | read_unchecked
//@ end
}
impl ReadUnchecked for U16Be {
    open spec fn spec_size() -> nat { Self::SIZE as nat }
    proof fn lemma_size() {}
    type HostType = u16;
//@ item src/binary/read.rs | impl ReadUnchecked for U16Be | const SIZE
//@ fn src/binary/read.rs | impl ReadUnchecked for U16Be | read_unchecked
//@ end
}
impl ReadUnchecked for I16Be {
    open spec fn spec_size() -> nat { Self::SIZE as nat }
    proof fn lemma_size() {}
    type HostType = i16;
//@ item src/binary/read.rs | impl ReadUnchecked for I16Be | const SIZE
//@ fn src/binary/read.rs | impl ReadUnchecked for I16Be | read_unchecked
//@ end
}
impl ReadUnchecked for U24Be {
    open spec fn spec_size() -> nat { Self::SIZE as nat }
    proof fn lemma_size() {}
    type HostType = u32;
//@ item src/binary/read.rs | impl ReadUnchecked for U24Be | const SIZE
//@ fn src/binary/read.rs | impl ReadUnchecked for U24Be | read_unchecked
//@ end
}
impl ReadUnchecked for U32Be {
    open spec fn spec_size() -> nat { Self::SIZE as nat }
    proof fn lemma_size() {}
    type HostType = u32;
//@ item src/binary/read.rs | impl ReadUnchecked for U32Be | const SIZE
//@ fn src/binary/read.rs | impl ReadUnchecked for U32Be | read_unchecked
//@ end
}
impl ReadUnchecked for I32Be {
    open spec fn spec_size() -> nat { Self::SIZE as nat }
    proof fn lemma_size() {}
    type HostType = i32;
//@ item src/binary/read.rs | impl ReadUnchecked for I32Be | const SIZE
//@ fn src/binary/read.rs | impl ReadUnchecked for I32Be | read_unchecked
//@ end
}
impl ReadUnchecked for U64Be {
    open spec fn spec_size() -> nat { Self::SIZE as nat }
    proof fn lemma_size() {}
    type HostType = u64;
//@ item src/binary/read.rs | impl ReadUnchecked for U64Be | const SIZE
//@ fn src/binary/read.rs | impl ReadUnchecked for U64Be | read_unchecked
//@ end
}
impl ReadUnchecked for I64Be {
    open spec fn spec_size() -> nat { Self::SIZE as nat }
    proof fn lemma_size() {}
    type HostType = i64;
//@ item src/binary/read.rs | impl ReadUnchecked for I64Be | const SIZE
//@ fn src/binary/read.rs | impl ReadUnchecked for I64Be | read_unchecked
//@ end
}

impl<T1, T2> ReadUnchecked for (T1, T2) where T1: ReadUnchecked, T2: ReadUnchecked {
    open spec fn spec_size() -> nat { T1::spec_size() + T2::spec_size() }
    proof fn lemma_size() {
        T1::lemma_size();
        T2::lemma_size();
        // rustc evaluates associated constants at compile time and rejects an overflowing `+` (error E0080), so the sum fits usize
        assume(T1::SIZE + T2::SIZE <= usize::MAX);
    }
    type HostType = (T1::HostType, T2::HostType);
//@ item src/binary/read.rs | impl<T1, T2> ReadUnchecked for (T1, T2) | const SIZE
//@ fn src/binary/read.rs | impl<T1, T2> ReadUnchecked for (T1, T2) | read_unchecked
//@ end
}
impl<T1, T2, T3> ReadUnchecked for (T1, T2, T3) where T1: ReadUnchecked, T2: ReadUnchecked, T3: ReadUnchecked {
    open spec fn spec_size() -> nat { T1::spec_size() + T2::spec_size() + T3::spec_size() }
    proof fn lemma_size() {
        T1::lemma_size();
        T2::lemma_size();
        T3::lemma_size();
        // rustc evaluates associated constants at compile time and rejects an overflowing `+` (error E0080), so the sum fits usize
        assume(T1::SIZE + T2::SIZE + T3::SIZE <= usize::MAX);
    }
    type HostType = (T1::HostType, T2::HostType, T3::HostType);
//@ item src/binary/read.rs | impl<T1, T2, T3> ReadUnchecked for (T1, T2, T3) | const SIZE
//@ fn src/binary/read.rs | impl<T1, T2, T3> ReadUnchecked for (T1, T2, T3) | read_unchecked
//@ end
}
impl<T1, T2, T3, T4> ReadUnchecked for (T1, T2, T3, T4) where T1: ReadUnchecked, T2: ReadUnchecked, T3: ReadUnchecked, T4: ReadUnchecked {
    open spec fn spec_size() -> nat { T1::spec_size() + T2::spec_size() + T3::spec_size() + T4::spec_size() }
    proof fn lemma_size() {
        T1::lemma_size();
        T2::lemma_size();
        T3::lemma_size();
        T4::lemma_size();
        // rustc evaluates associated constants at compile time and rejects an overflowing `+` (error E0080), so the sum fits usize
        assume(T1::SIZE + T2::SIZE + T3::SIZE + T4::SIZE <= usize::MAX);
    }
    type HostType = (T1::HostType, T2::HostType, T3::HostType, T4::HostType);
//@ item src/binary/read.rs | impl<T1, T2, T3, T4> ReadUnchecked for (T1, T2, T3, T4) | const SIZE
//@ fn src/binary/read.rs | impl<T1, T2, T3, T4> ReadUnchecked for (T1, T2, T3, T4) | read_unchecked
//@ end
}

// ---- the unchecked iterator over a ReadArray window ------------------------------------
impl<'a> ReadScope<'a> {
    #[verifier::external_body]   // contract proved in R_core
    pub fn offset(&self, offset: usize) -> (r: ReadScope<'a>)
        requires self.base + offset <= usize::MAX
        ensures r.base == self.base + offset,
            offset <= self.data@.len() ==> r.data@ == self.data@.subrange(offset as int, self.data@.len() as int),
            offset > self.data@.len() ==> r.data@.len() == 0,
    { unimplemented!() }
    #[verifier::external_body]   // contract proved in R_core
    pub fn ctxt(&self) -> (r: ReadCtxt<'a>)
        ensures r.scope == *self, r.offset == 0
    { unimplemented!() }
}
impl<'a> ReadCtxt<'a> {
    #[verifier::external_body]   // contract proved in R_core
    pub fn check_avail(&self, length: usize) -> (r: Result<(), ReadEof>)
        ensures r is Ok ==> self.avail(length as int)
    { unimplemented!() }
}

//@ item src/binary/read.rs | struct ReadArrayIter | derive=

impl<'a, T: ReadUnchecked> ReadArrayIter<'a, T> {
    /// invariant established by ReadArray::iter from the ReadArray window invariant (scope = length*stride bytes, stride >= T::SIZE)
    pub open spec fn inv(&self) -> bool {
        self.scope.wf() && self.stride >= 1 && self.stride >= T::spec_size() && self.index * self.stride <= self.scope.data@.len()
    }
//@ fn src/binary/read.rs | impl<'a, 'b, T: ReadUnchecked> Iterator for ReadArrayIter<'a, T> | next
//@ ret r
//@ spec
    requires old(self).inv()
    ensures final(self).inv(), final(self).scope == old(self).scope, final(self).stride == old(self).stride,
        // an element is produced only if it lies wholly inside the window
        r is Some ==> (old(self).index + 1) * old(self).stride <= old(self).scope.data@.len() && final(self).index == old(self).index + 1,
        r is None ==> final(self).index == old(self).index,
//@ before let mut ctxt
        proof { vstd::arithmetic::mul::lemma_mul_is_distributive_add_other_way(self.stride as int, self.index as int, 1); }
//@ after .check_avail(
        proof {
            assert((self.index + 1) * self.stride <= self.scope.data@.len());
            assert(self.index + 1 <= (self.index + 1) * self.stride) by(nonlinear_arith) requires self.stride >= 1;
        }
//@ end
}

} // verus!
fn main() {}
