//@ unit C17_beng
//@ props C17 C02
//@ strength proved-unbounded
//@ min-verified 2
//@ assume a Vec<char> is shorter than usize::MAX elements (Rust allocation limit isize::MAX bytes), stated as a precondition
use vstd::prelude::*;
verus! {

// ---- Bengali YA + NUKTA -> YYA (the only recomposition the property allows) --------------------------------
pub open spec fn recomposed(s: Seq<char>) -> Seq<char>
    decreases s.len()
{
    if s.len() < 2 { s }
    else if s[0] == '\u{09AF}' && s[1] == '\u{09BC}' { seq!['\u{09DF}'] + recomposed(s.subrange(2, s.len() as int)) }
    else { seq![s[0]] + recomposed(s.subrange(1, s.len() as int)) }
}

//@ fn src/scripts/indic.rs | recompose_bengali_ya_nukta
//@ attr #[verifier::loop_isolation(false)]
//@ before let mut i = 0;
    let ghost orig = cs@;
    let ghost mut k: int = 0;
    let ghost mut done: Seq<char> = Seq::empty();
    proof { assert(orig.subrange(0, orig.len() as int) =~= orig); }
//@ loop 1
        invariant 0 <= k <= orig.len(), i == done.len(), cs@.len() < usize::MAX,
            cs@ == done + orig.subrange(k, orig.len() as int),
            done + recomposed(orig.subrange(k, orig.len() as int)) == recomposed(orig),
        decreases orig.len() - k,
//@ before if cs[i] ==
        let ghost tail = orig.subrange(k, orig.len() as int);
        let ghost was_pair = tail[0] == '\u{09AF}' && tail[1] == '\u{09BC}';
        proof { assert(cs@[i as int] == tail[0] && cs@[i as int + 1] == tail[1]); }
//@ loop-end 1
        proof {
            if was_pair {
                assert(tail.subrange(2, tail.len() as int) =~= orig.subrange(k + 2, orig.len() as int));
                assert(cs@ =~= done.push('\u{09DF}') + orig.subrange(k + 2, orig.len() as int));
                assert(done + (seq!['\u{09DF}'] + recomposed(orig.subrange(k + 2, orig.len() as int))) =~= done.push('\u{09DF}') + recomposed(orig.subrange(k + 2, orig.len() as int)));
                done = done.push('\u{09DF}');
                k = k + 2;
            } else {
                assert(tail.subrange(1, tail.len() as int) =~= orig.subrange(k + 1, orig.len() as int));
                assert(cs@ =~= done.push(tail[0]) + orig.subrange(k + 1, orig.len() as int));
                assert(done + (seq![tail[0]] + recomposed(orig.subrange(k + 1, orig.len() as int))) =~= done.push(tail[0]) + recomposed(orig.subrange(k + 1, orig.len() as int)));
                done = done.push(tail[0]);
                k = k + 1;
            }
        }
//@ spec
    requires old(cs)@.len() < usize::MAX
    ensures final(cs)@ == recomposed(old(cs)@)
//@ end

} // verus!
fn main() {}
