//@ unit C05_ctx
//@ props C05 C02 C01
//@ strength proved-unbounded
//@ min-verified 5
//@ assume MatchType::find_nth / find_next / find_prev carry the contracts PROVED in unit C02_find (clauses restated: a found index lies inside the run, after / before the start index)
//@ assume pairpos / cursivepos / markbasepos / markligpos / markmarkpos need both indices inside the run (they index infos[i1], infos[i2]; markbasepos / markligpos / markmarkpos / cursivepos are unit C05_attach) and, taking `&mut [Info]`, cannot change the run's length
//@ assume LookupList::lookup_cache_gpos returns some cached lookup or an error; Rc is replaced by Box (only dereferenced); Tuple, Info, the sub-table types are opaque placeholders
//@ unverified which context rule matches (gpos_lookup_contextpos: closures); gpos_apply_lookup's own loops (iterator strategies with closures)
// Verification unit C05_ctx (properties C05, C02): nested lookups of a contextual positioning rule (GPOS types 7 and 8).
// Proved for every lookup type and every list of (sequence index, lookup index) records: the positions handed to the sub-table
// functions are inside the run - `infos[i1]`, the pair (i1, next non-skipped glyph) and the (preceding base / mark, i1) attachment pairs -
// so no nested record can index outside the run; nested context lookups are ignored (no recursion).
use vstd::prelude::*;
verus! {

//@ item src/error.rs | enum ParseError | derive=
//@ item src/context.rs | enum IgnoreMarks | derive=Copy,Clone
//@ item src/context.rs | struct MatchType | derive=Copy,Clone

pub struct GPOS { pub opaque: u8 }
pub struct GDEFTable { pub opaque: u8 }
pub struct LayoutCache<T> { pub opaque: T }
pub struct GlyphStub { pub glyph_index: u16 }
pub struct Info { pub glyph: GlyphStub }
#[derive(Copy, Clone)]
pub struct Tuple<'a> { pub opaque: &'a [u16] }
#[derive(Copy, Clone)]
pub struct LookupFlag(pub u16);

pub struct SinglePos { pub opaque: u8 }
pub struct PairPos { pub opaque: u8 }
pub struct CursivePos { pub opaque: u8 }
pub struct MarkBasePos { pub opaque: u8 }
pub struct MarkLigPos { pub opaque: u8 }
pub struct ContextLookup<T> { pub opaque: T }
pub struct ChainContextLookup<T> { pub opaque: T }

//@ item src/layout.rs | enum PosLookup | derive=
//@ item src/layout.rs | struct LookupCacheItem | derive=

pub struct LookupList<T> { pub opaque: T }
pub struct GlyphTable<'a> { pub opaque: &'a [u16] }
pub struct MatchContext<'a> {
    pub backtrack_table: GlyphTable<'a>,
    pub input_table: GlyphTable<'a>,
    pub lookahead_table: GlyphTable<'a>,
}
pub struct PosContext<'a> {
    pub match_context: MatchContext<'a>,
    pub lookup_array: &'a [(u16, u16)],
}

impl LookupList<GPOS> {
    #[verifier::external_body]
    pub fn lookup_cache_gpos(&self, cache: &LayoutCache<GPOS>, lookup_index: usize) -> (r: Result<Box<LookupCacheItem<PosLookup>>, ParseError>)
    { unimplemented!() }
}

impl MatchType {
    #[verifier::external_body]
    pub fn from_lookup_flag(lookup_flag: LookupFlag, mark_filtering_set: Option<u16>) -> (r: MatchType) { unimplemented!() }
    #[verifier::external_body]
    pub fn ignore_marks() -> (r: MatchType) { unimplemented!() }
    /// contracts proved in unit C02_find (the clauses used here)
    #[verifier::external_body]
    pub fn find_nth(self, opt_gdef_table: Option<&GDEFTable>, glyphs: &[Info], index: usize, count: usize) -> (r: Option<usize>)
        ensures r is Some ==> index <= r->Some_0,
            r is Some && count == 0 ==> r->Some_0 == index,
            r is Some && count > 0 ==> index < r->Some_0 && r->Some_0 < glyphs@.len(),
    { unimplemented!() }
    #[verifier::external_body]
    pub fn find_next(self, opt_gdef_table: Option<&GDEFTable>, glyphs: &[Info], index: usize) -> (r: Option<usize>)
        ensures r is Some ==> index < r->Some_0 && r->Some_0 < glyphs@.len(),
    { unimplemented!() }
    #[verifier::external_body]
    pub fn find_prev(self, opt_gdef_table: Option<&GDEFTable>, glyphs: &[Info], index: usize) -> (r: Option<usize>)
        ensures r is Some ==> r->Some_0 < index,
    { unimplemented!() }
}

#[verifier::external_body]
pub fn singlepos(subtables: &Vec<SinglePos>, tuple: Option<Tuple<'_>>, opt_gdef_table: Option<&GDEFTable>, i: &mut Info) -> (r: Result<(), ParseError>) { unimplemented!() }
#[verifier::external_body]
pub fn pairpos(subtables: &Vec<PairPos>, tuple: Option<Tuple<'_>>, opt_gdef_table: Option<&GDEFTable>, i1: usize, i2: usize, infos: &mut [Info]) -> (r: Result<(), ParseError>)
    requires i1 < old(infos)@.len(), i2 < old(infos)@.len()
    ensures final(infos)@.len() == old(infos)@.len()
{ unimplemented!() }
#[verifier::external_body]
pub fn cursivepos(subtables: &Vec<CursivePos>, i1: usize, i2: usize, lookup_flag: LookupFlag, infos: &mut [Info]) -> (r: Result<(), ParseError>)
    requires i1 < old(infos)@.len(), i2 < old(infos)@.len()
    ensures final(infos)@.len() == old(infos)@.len()
{ unimplemented!() }
#[verifier::external_body]
pub fn markbasepos(subtables: &Vec<MarkBasePos>, i1: usize, i2: usize, infos: &mut [Info]) -> (r: Result<(), ParseError>)
    requires i1 < old(infos)@.len(), i2 < old(infos)@.len()
    ensures final(infos)@.len() == old(infos)@.len()
{ unimplemented!() }
#[verifier::external_body]
pub fn markligpos(subtables: &Vec<MarkLigPos>, i1: usize, i2: usize, infos: &mut [Info]) -> (r: Result<(), ParseError>)
    requires i1 < old(infos)@.len(), i2 < old(infos)@.len()
    ensures final(infos)@.len() == old(infos)@.len()
{ unimplemented!() }
#[verifier::external_body]
pub fn markmarkpos(subtables: &Vec<MarkBasePos>, i1: usize, i2: usize, infos: &mut [Info]) -> (r: Result<(), ParseError>)
    requires i1 < old(infos)@.len(), i2 < old(infos)@.len()
    ensures final(infos)@.len() == old(infos)@.len()
{ unimplemented!() }

//@ fn src/gpos.rs | apply_pos
//@ ret r
//@ spec
    requires index < old(infos)@.len()
    ensures final(infos)@.len() == old(infos)@.len()
//@ end

//@ fn src/gpos.rs | apply_pos_context
//@ ret r
//@ attr #[verifier::loop_isolation(false)]
//@ loop 1
        invariant infos@.len() == old(infos)@.len(),
//@ spec
    requires i < old(infos)@.len()
    ensures final(infos)@.len() == old(infos)@.len()
//@ end

/// which rule matches is decided with closures: opaque here - some context, none, or an error (a `&mut` slice cannot change its length)
#[verifier::external_body]
pub fn gpos_lookup_contextpos<'a>(opt_gdef_table: Option<&GDEFTable>, match_type: MatchType, subtables: &'a [ContextLookup<GPOS>], glyph_index: u16, i: usize, infos: &mut [Info])
    -> (r: Result<Option<Box<PosContext<'a>>>, ParseError>)
    ensures final(infos)@.len() == old(infos)@.len()
{ unimplemented!() }
#[verifier::external_body]
pub fn gpos_lookup_chaincontextpos<'a>(opt_gdef_table: Option<&GDEFTable>, match_type: MatchType, subtables: &'a [ChainContextLookup<GPOS>], glyph_index: u16, i: usize, infos: &mut [Info])
    -> (r: Result<Option<Box<PosContext<'a>>>, ParseError>)
    ensures final(infos)@.len() == old(infos)@.len()
{ unimplemented!() }

//@ fn src/gpos.rs | contextpos
//@ ret r
//@ spec
    requires i < old(infos)@.len()
    ensures final(infos)@.len() == old(infos)@.len()
//@ end

//@ fn src/gpos.rs | chaincontextpos
//@ ret r
//@ spec
    requires i < old(infos)@.len()
    ensures final(infos)@.len() == old(infos)@.len()
//@ end

} // verus!
fn main() {}
