//@ unit C02_frac
//@ props C02 C04 C01
//@ strength proved-unbounded
//@ min-verified 6
//@ assume gsub_apply_lookup carries the contract read off its body (src/gsub.rs:286): it needs start + length <= glyphs.len() (it slices / indexes glyphs[start..start + length]) and, when it succeeds, returns the new length r of that segment: the run grows or shrinks by exactly r - length and start + r stays inside it. The contract is PROVED in unit C02_lookup for the multiple, ligature, context and chain-context arms (the single, alternate and reverse-chaining arms are opaque there: they do not change the length); it says nothing about `pred` because the driver passes `|_| true`
//@ assume LayoutCache<GSUB>, LayoutTable<GSUB>, GDEFTable are opaque placeholder types in this unit (only passed through)
//@ assume TinyVec<[char; 1]> and RawGlyphFlags are opaque stand-in types (as in C04_mult); nothing is claimed about them
//@ assume scrutinee hoisting: `match glyphs[e].glyph_origin {` is rewritten to `let scrutinee = glyphs[e].glyph_origin; match scrutinee {` (GlyphOrigin is Copy; same evaluation order) because this Verus build panics (vir/src/ast_to_sst.rs:3765) on an index expression as scrutinee of a match with a guard call
//@ assume a slice / Vec has at most usize::MAX elements (Rust invariant; Verus learns it only from a len() call): precondition of find_fraction and gsub_apply_lookups_impl proved at the call sites, postcondition of the gsub_apply_lookup stub
//@ assume `slice.iter().position(|g| g.glyph_origin == GlyphOrigin::Char('/'))` is routed through a wrapper with std's documented contract (first index whose element satisfies the predicate); `char::is_ascii_digit` through a wrapper stating '0' <= c <= '9'; `&glyphs[i..]` through a wrapper stating the sub-slice view
//@ unverified which lookups the caller passes (HashMap-backed lookup cache)
// Verification unit C02_frac (properties C02, C04): the `frac` driver. Text with ASCII fractions is shaped piecewise: the part before
// a fraction with the ordinary lookups, the fraction digits '/' digits with the frac lookups, and so on to the end of the run.
// Proved for every glyph run and every behaviour of the lookups allowed by gsub_apply_lookup's contract:
//   * find_fraction returns positions start < slash < end inside the slice it was given, glyph `slash` is '/', its neighbours are digits;
//   * every (start, length) segment handed to gsub_apply_lookups_impl lies inside the current run (callee precondition) - an end
//     position passed as a length, or positions relative to the wrong base, fail this obligation;
//   * no index, slice or arithmetic failure; the loop terminates (the unprocessed tail shrinks on every round).
use vstd::prelude::*;
verus! {

//@ item src/error.rs | enum ParseError | derive=
//@ item src/unicode.rs | enum VariationSelector | derive=Copy,Clone
//@ item src/gsub.rs | enum GlyphOrigin | derive=Copy,Clone

#[verifier::external_body]
#[verifier::reject_recursive_types(A)]
pub struct TinyVec<A> { _a: core::marker::PhantomData<A> }
#[derive(Copy, Clone)]
pub struct RawGlyphFlags { pub bits: u8 }

//@ item src/gsub.rs | struct RawGlyph | derive=

pub struct GSUB { pub opaque: u8 }
pub struct GDEFTable { pub opaque: u8 }
pub struct LayoutCache<T> { pub opaque: T }
pub struct LayoutTable<T> { pub opaque: T }
pub enum ShapingError { Parse(ParseError) }
impl From<ParseError> for ShapingError {
    fn from(error: ParseError) -> Self { ShapingError::Parse(error) }
}
impl vstd::std_specs::convert::FromSpecImpl<ParseError> for ShapingError {
    open spec fn obeys_from_spec() -> bool { true }
    open spec fn from_spec(e: ParseError) -> ShapingError { ShapingError::Parse(e) }
}

pub open spec fn is_slash(o: GlyphOrigin) -> bool { o == GlyphOrigin::Char('/') }
pub open spec fn is_digit_origin(o: GlyphOrigin) -> bool { o is Char && '0' <= o->Char_0 && o->Char_0 <= '9' }

/// std: Iterator::position returns the index of the first element satisfying the predicate
#[verifier::external_body]
pub fn position_of_slash(glyphs: &[RawGlyph<()>]) -> (r: Option<usize>)
    ensures
        r is Some ==> r->Some_0 < glyphs@.len() && is_slash(glyphs@[r->Some_0 as int].glyph_origin)
            && (forall|k: int| 0 <= k < r->Some_0 ==> !is_slash(#[trigger] glyphs@[k].glyph_origin)),
        r is None ==> (forall|k: int| 0 <= k < glyphs@.len() ==> !is_slash(#[trigger] glyphs@[k].glyph_origin)),
{ unimplemented!() }

#[verifier::external_body]
pub fn char_is_ascii_digit(c: char) -> (r: bool)
    ensures r == ('0' <= c && c <= '9')
{ c.is_ascii_digit() }

#[verifier::external_body]
pub fn vec_tail<'a>(glyphs: &'a Vec<RawGlyph<()>>, i: usize) -> (r: &'a [RawGlyph<()>])
    requires i <= glyphs@.len()
    ensures r@ == glyphs@.subrange(i as int, glyphs@.len() as int)
{ &glyphs[i..] }

/// the contract of gsub_apply_lookup as read off its body (trusted here): the segment glyphs[start..start + length] is replaced by
/// r glyphs, nothing else changes the length of the run
#[verifier::external_body]
pub fn gsub_apply_lookup_all(
    gsub_cache: &LayoutCache<GSUB>,
    gsub_table: &LayoutTable<GSUB>,
    opt_gdef_table: Option<&GDEFTable>,
    lookup_index: usize,
    feature_tag: u32,
    opt_alternate: Option<usize>,
    glyphs: &mut Vec<RawGlyph<()>>,
    start: usize,
    length: usize,
) -> (r: Result<usize, ParseError>)
    requires start + length <= old(glyphs)@.len()
    ensures r is Ok ==> start + r->Ok_0 <= final(glyphs)@.len() && final(glyphs)@.len() - r->Ok_0 == old(glyphs)@.len() - length,
        final(glyphs)@.len() <= usize::MAX,
{ unimplemented!() }

//@ fn src/gsub.rs | gsub_apply_lookups_impl
//@ ret r
//@ attr #[verifier::loop_isolation(false)]
//@ rename-re gsub_apply_lookup\(\s*gsub_cache,\s*gsub_table,\s*opt_gdef_table,\s*\*lookup_index,\s*\*feature_tag,\s*None,\s*glyphs,\s*start,\s*length,\s*\|_\| true,\s*\) => gsub_apply_lookup_all(gsub_cache, gsub_table, opt_gdef_table, *lookup_index, *feature_tag, None, glyphs, start, length)
//@ loop 1
        invariant start + length <= glyphs@.len(), glyphs@.len() - length == old(glyphs)@.len() - length0, glyphs@.len() <= usize::MAX,
//@ before for (lookup_index, feature_tag) in lookups
    let ghost length0 = length;
//@ spec
    requires start + length <= old(glyphs)@.len(), old(glyphs)@.len() <= usize::MAX
    ensures r is Ok ==> start + r->Ok_0 <= final(glyphs)@.len() && final(glyphs)@.len() - r->Ok_0 == old(glyphs)@.len() - length,
        final(glyphs)@.len() <= usize::MAX,
//@ end

//@ fn src/gsub.rs | find_fraction
//@ ret r
//@ attr #[verifier::loop_isolation(false)]
//@ rename-re glyphs\s*\.iter\(\)\s*\.position\(\|g\| g\.glyph_origin == GlyphOrigin::Char\('/'\)\) => position_of_slash(glyphs)
//@ rename-re \b(\w+)\.is_ascii_digit\(\) => char_is_ascii_digit(\1)
//@ rename-re match (glyphs\[[^\]]*\]\.glyph_origin) \{ => let scrutinee = \1; match scrutinee {
//@ loop 1
        invariant start_pos <= slash_pos, slash_pos < glyphs@.len(),
            forall|k: int| start_pos <= k < slash_pos ==> is_digit_origin(#[trigger] glyphs@[k].glyph_origin),
        decreases start_pos,
//@ loop 2
        invariant slash_pos <= end_pos, end_pos < glyphs@.len(),
            forall|k: int| slash_pos < k <= end_pos ==> is_digit_origin(#[trigger] glyphs@[k].glyph_origin),
        decreases glyphs@.len() - end_pos,
//@ spec
    requires glyphs@.len() <= usize::MAX
    ensures
        r is Some ==> r->Some_0.0 < r->Some_0.1 && r->Some_0.1 < r->Some_0.2 && r->Some_0.2 < glyphs@.len(),
        // the slash is the FIRST '/' of the slice, and it is surrounded by ASCII digits from start to end
        r is Some ==> is_slash(glyphs@[r->Some_0.1 as int].glyph_origin)
            && (forall|k: int| 0 <= k < r->Some_0.1 ==> !is_slash(#[trigger] glyphs@[k].glyph_origin)),
        r is Some ==> (forall|k: int| r->Some_0.0 <= k < r->Some_0.1 ==> is_digit_origin(#[trigger] glyphs@[k].glyph_origin)),
        r is Some ==> (forall|k: int| r->Some_0.1 < k <= r->Some_0.2 ==> is_digit_origin(#[trigger] glyphs@[k].glyph_origin)),
        // a slice without '/' has no fraction
        (forall|k: int| 0 <= k < glyphs@.len() ==> !is_slash(#[trigger] glyphs@[k].glyph_origin)) ==> r is None,
//@ end

//@ fn src/gsub.rs | gsub_apply_lookups_frac
//@ ret r
//@ attr #[verifier::loop_isolation(false)]
//@ rename-re find_fraction\(&glyphs\[i\.\.\]\) => find_fraction(vec_tail(glyphs, i))
//@ loop 1
        invariant i <= glyphs@.len(), glyphs@.len() <= usize::MAX,
        decreases glyphs@.len() - i,
//@ spec
    requires old(glyphs)@.len() <= usize::MAX
    ensures true
//@ end

//@ fn src/gsub.rs | gsub_apply_lookups
//@ ret r
//@ spec
    ensures true
//@ end

} // verus!
fn main() {}
