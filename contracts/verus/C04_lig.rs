//@ unit C04_lig
//@ props C04 C02
//@ strength proved-unbounded
//@ min-verified 9
//@ assume MatchType::match_glyph is abstracted as an uninterpreted predicate of (match type, GDEF, glyph) that does not depend on liga_component_pos; its conformance to the lookup-flag rule is Kani unit C04_flag
//@ assume TinyVec<[char; 1]> is an opaque stand-in with an uninterpreted character view; `append` moves the characters of the argument to the end of the receiver (tinyvec's documented contract); RawGlyphFlags::set is uninterpreted
//@ assume GlyphData::merge / Clone of the generic extra data are unconstrained (nothing is claimed about `extra_data`)
//@ assume GDEFTable is an opaque placeholder type in this unit (only passed through)
//@ unverified (nothing around this function: Ligature::matches / ligaturesubst_would_apply / ligaturesubst establish the precondition `enough` in unit C04_ligs; the bookkeeping of gsub_apply_lookup is unit C02_lookup)
// Verification unit C04_lig (properties C04, C02): applying a ligature at position i. Under the precondition that Ligature::matches
// establishes (the run holds enough non-skipped glyphs after i) the code never reaches panic!("ran out of glyphs"); the first
// |components| non-skipped glyphs after i are removed, THEIR CHARACTERS ARE APPENDED, IN ORDER, to those of glyph i, which becomes the
// ligature glyph; glyphs before i are untouched; the run shrinks by exactly |components|.
use vstd::prelude::*;
verus! {

//@ item src/context.rs | enum IgnoreMarks | derive=Copy,Clone
//@ item src/context.rs | struct MatchType | derive=Copy,Clone
//@ item src/unicode.rs | enum VariationSelector | derive=Copy,Clone
//@ item src/gsub.rs | enum GlyphOrigin | derive=Copy,Clone
//@ item src/layout.rs | struct Ligature | derive=

pub struct GDEFTable { pub opaque: u8 }

#[verifier::external_body]
#[verifier::reject_recursive_types(A)]
pub struct TinyVec<A> { _a: core::marker::PhantomData<A> }
impl<A> TinyVec<A> {
    pub uninterp spec fn chars(&self) -> Seq<char>;
    #[verifier::external_body]
    pub fn append(&mut self, other: &mut Self)
        ensures final(self).chars() == old(self).chars() + old(other).chars(), final(other).chars() == Seq::<char>::empty()
    { unimplemented!() }
}
#[derive(Copy, Clone)]
pub struct RawGlyphFlags { pub bits: u8 }
pub uninterp spec fn flags_set(f: RawGlyphFlags, bit: RawGlyphFlags, v: bool) -> RawGlyphFlags;
impl RawGlyphFlags {
    pub const LIGATURE: RawGlyphFlags = RawGlyphFlags { bits: 8 };
    #[verifier::external_body]
    pub fn set(&mut self, other: RawGlyphFlags, value: bool) ensures *final(self) == flags_set(*old(self), other, value) { unimplemented!() }
}
pub trait GlyphData: Clone {
    fn merge(data1: Self, data2: Self) -> Self;
}

//@ item src/gsub.rs | struct RawGlyph | derive=

/// "not skipped under the lookup flags" - a property of the glyph id / GDEF classes, not of liga_component_pos
pub uninterp spec fn matches_glyph<T>(mt: MatchType, gdef: Option<&GDEFTable>, glyph_index: u16) -> bool;
impl MatchType {
    #[verifier::external_body]
    pub fn match_glyph<T>(self, opt_gdef_table: Option<&GDEFTable>, glyph: &RawGlyph<T>) -> (r: bool)
        ensures r == matches_glyph::<T>(self, opt_gdef_table, glyph.glyph_index)
    { unimplemented!() }
    #[verifier::external_body]
    pub fn marks_only() -> (r: MatchType) { unimplemented!() }
}

/// the run holds n more non-skipped glyphs from position `from` on (what Ligature::matches checked)
pub open spec fn enough<T>(s: Seq<RawGlyph<T>>, mt: MatchType, gdef: Option<&GDEFTable>, from: int, n: int) -> bool
    decreases s.len() - from
{
    if n <= 0 { true } else if from < 0 || from >= s.len() { false }
    else if matches_glyph::<T>(mt, gdef, s[from].glyph_index) { enough(s, mt, gdef, from + 1, n - 1) } else { enough(s, mt, gdef, from + 1, n) }
}
/// the characters of the first n non-skipped glyphs from position `from` on, in run order
pub open spec fn component_chars<T>(s: Seq<RawGlyph<T>>, mt: MatchType, gdef: Option<&GDEFTable>, from: int, n: int) -> Seq<char>
    decreases s.len() - from
{
    if n <= 0 || from < 0 || from >= s.len() { Seq::empty() }
    else if matches_glyph::<T>(mt, gdef, s[from].glyph_index) { s[from].unicodes.chars() + component_chars(s, mt, gdef, from + 1, n - 1) }
    else { component_chars(s, mt, gdef, from + 1, n) }
}

impl Ligature {
//@ fn src/gsub.rs | impl Ligature | apply
//@ ret r
//@ attr #[verifier::loop_isolation(false)]
//@ before? let mut index = i + 1;
        let ghost before = glyphs@;
        let ghost n = self.component_glyphs@.len() as int;
//@ loop 1
            invariant i < index <= glyphs@.len(), matched <= n, (skip as int) + i + 1 <= index,
                glyphs@.len() == before.len() - matched,
                forall|k: int| 0 <= k < i ==> glyphs@[k] == before[k],
                forall|k: int| index <= k < glyphs@.len() ==> glyphs@[k] == before[k + matched],
                enough(before, match_type, opt_gdef_table, index + matched, n - matched),
                glyphs@[i as int].unicodes.chars() + component_chars(before, match_type, opt_gdef_table, index + matched, n - matched)
                    == before[i as int].unicodes.chars() + component_chars(before, match_type, opt_gdef_table, i + 1, n),
                glyphs@[i as int].variation == before[i as int].variation, glyphs@[i as int].liga_component_pos == before[i as int].liga_component_pos,
            decreases before.len() - (index + matched) + (n - matched),
//@ before? if match_type.match_glyph(opt_gdef_table, &glyphs[index]) {
                proof { assert(glyphs@[index as int] == before[index + matched]); }
//@ after? glyphs[i].unicodes.append(&mut matched_glyph.unicodes);
                    proof {
                        assert(glyphs@[i as int].unicodes.chars() + component_chars(before, match_type, opt_gdef_table, index + matched, n - matched)
                            =~= before[i as int].unicodes.chars() + component_chars(before, match_type, opt_gdef_table, i + 1, n));
                    }
//@ loop 2
            invariant i < index <= glyphs@.len(), glyphs@.len() == before.len() - n, matched == n,
                forall|k: int| 0 <= k < i ==> glyphs@[k] == before[k],
                glyphs@[i as int].unicodes.chars() == before[i as int].unicodes.chars() + component_chars(before, match_type, opt_gdef_table, i + 1, n),
                glyphs@[i as int].variation == before[i as int].variation, glyphs@[i as int].liga_component_pos == before[i as int].liga_component_pos,
            decreases glyphs@.len() - index,
//@ spec
    requires i < old(glyphs)@.len(), old(glyphs)@.len() < usize::MAX,
        // established by Ligature::matches: every component finds a non-skipped glyph after i
        enough(old(glyphs)@, match_type, opt_gdef_table, i + 1, self.component_glyphs@.len() as int),
    ensures
        final(glyphs)@.len() == old(glyphs)@.len() - self.component_glyphs@.len(),
        forall|k: int| 0 <= k < i ==> final(glyphs)@[k] == old(glyphs)@[k],
        final(glyphs)@[i as int].glyph_index == self.ligature_glyph,
        final(glyphs)@[i as int].glyph_origin == GlyphOrigin::Direct,
        final(glyphs)@[i as int].variation == old(glyphs)@[i as int].variation,
        final(glyphs)@[i as int].liga_component_pos == old(glyphs)@[i as int].liga_component_pos,
        // the ligature carries the characters of all its components, in order
        final(glyphs)@[i as int].unicodes.chars() == old(glyphs)@[i as int].unicodes.chars()
            + component_chars(old(glyphs)@, match_type, opt_gdef_table, i + 1, self.component_glyphs@.len() as int),
        // the returned skip count stays inside the run
        (r as int) + i + 1 <= old(glyphs)@.len(),
//@ end
}

} // verus!
fn main() {}
