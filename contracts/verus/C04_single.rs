//@ unit C04_single
//@ props C04 C02
//@ strength proved-unbounded
//@ min-verified 16
//@ assume SingleSubst::apply_glyph / AlternateSubst::apply_glyph carry the contracts proved in unit L_subst; abstracted here by uninterpreted functions of (subtable, glyph)
//@ assume TinyVec<[char; 1]> and the bitflags type RawGlyphFlags are opaque stand-in types (`set` is an uninterpreted function of (flags, bit, value))
//@ assume tag::VERT = 'vert', tag::VRT2 = 'vrt2' restated as numbers (the tag! macro is not sliceable)
//@ unverified gsub_apply_lookup's per-glyph loop around these calls (closures, lookup cache)
// Verification unit C04_single (properties C04, C02): SingleSubst and AlternateSubst application to one glyph: the first sub-table
// that covers the glyph decides; only the glyph id, its origin and (for vert / vrt2) the vertical-alternate flag change - the
// characters attributed to the glyph, its ligature component position and variation selector are untouched.
use vstd::prelude::*;
verus! {

//@ item src/error.rs | enum ParseError | derive=
//@ item src/unicode.rs | enum VariationSelector | derive=Copy,Clone
//@ item src/gsub.rs | enum GlyphOrigin | derive=Copy,Clone
//@ item src/layout.rs | struct AlternateSet | derive=

pub mod tag { pub const VERT: u32 = 0x76657274; pub const VRT2: u32 = 0x76727432; }

#[verifier::external_body]
#[verifier::reject_recursive_types(A)]
pub struct TinyVec<A> { _a: core::marker::PhantomData<A> }
#[derive(Copy, Clone)]
pub struct RawGlyphFlags { pub bits: u8 }
pub uninterp spec fn flags_set(f: RawGlyphFlags, bit: RawGlyphFlags, v: bool) -> RawGlyphFlags;
impl RawGlyphFlags {
    pub const IS_VERT_ALT: RawGlyphFlags = RawGlyphFlags { bits: 4 };
    #[verifier::external_body]
    pub fn set(&mut self, other: RawGlyphFlags, value: bool) ensures *final(self) == flags_set(*old(self), other, value) { unimplemented!() }
}
pub trait GlyphData: Clone {}

//@ item src/gsub.rs | struct RawGlyph | derive=

pub struct SingleSubst { pub id: u64 }
pub uninterp spec fn spec_single(s: SingleSubst, g: u16) -> Result<Option<u16>, ParseError>;
impl SingleSubst {
    #[verifier::external_body]
    pub fn apply_glyph(&self, glyph: u16) -> (r: Result<Option<u16>, ParseError>) ensures r == spec_single(*self, glyph) { unimplemented!() }
}
pub struct AlternateSubst { pub id: u64 }
pub uninterp spec fn spec_alt(s: AlternateSubst, g: u16) -> Result<Option<AlternateSet>, ParseError>;
impl AlternateSubst {
    #[verifier::external_body]
    pub fn apply_glyph(&self, glyph: u16) -> (r: Result<Option<&AlternateSet>, ParseError>)
        ensures r is Ok == spec_alt(*self, glyph) is Ok,
            r is Ok ==> (r->Ok_0 is Some) == (spec_alt(*self, glyph)->Ok_0 is Some),
            r is Ok && r->Ok_0 is Some ==> *r->Ok_0->Some_0 == spec_alt(*self, glyph)->Ok_0->Some_0,
            r is Err ==> r->Err_0 == spec_alt(*self, glyph)->Err_0,
    { unimplemented!() }
}

pub open spec fn miss1(s: SingleSubst, g: u16) -> bool { spec_single(s, g) == Ok::<Option<u16>, ParseError>(None) }
/// result of the first sub-table that does not answer "not covered"
pub open spec fn first_single(subs: Seq<SingleSubst>, g: u16) -> Result<Option<u16>, ParseError>
    decreases subs.len()
{
    if subs.len() == 0 { Ok(None) } else if miss1(subs[0], g) { first_single(subs.subrange(1, subs.len() as int), g) } else { spec_single(subs[0], g) }
}
proof fn lemma_first_single(subs: Seq<SingleSubst>, g: u16, k: int)
    requires 0 <= k <= subs.len(), forall|m: int| 0 <= m < k ==> miss1(#[trigger] subs[m], g)
    ensures first_single(subs, g) == first_single(subs.subrange(k, subs.len() as int), g)
    decreases k
{
    if k > 0 {
        let t = subs.subrange(1, subs.len() as int);
        assert(forall|m: int| 0 <= m < k - 1 ==> miss1(#[trigger] t[m], g)) by { assert(forall|m: int| 0 <= m < k - 1 ==> t[m] == subs[m + 1]); }
        lemma_first_single(t, g, k - 1);
        assert(t.subrange(k - 1, t.len() as int) =~= subs.subrange(k, subs.len() as int));
    } else { assert(subs.subrange(0, subs.len() as int) =~= subs); }
}

//@ fn src/gsub.rs | singlesubst_would_apply
//@ ret r
//@ iter 1 it
//@ loop 1
        invariant glyph_index == glyph.glyph_index, forall|m: int| 0 <= m < it.index@ ==> miss1(#[trigger] subtables@[m], glyph_index),
//@ before? if let Some(glyph_index) = single_subst.apply_glyph(glyph_index)? {
        proof {
            assert(*single_subst == subtables@[it.index@ as int]);
            lemma_first_single(subtables@, glyph_index, it.index@ as int);
            let rest = subtables@.subrange(it.index@ as int, subtables@.len() as int);
            assert(rest[0] == subtables@[it.index@ as int]);
        }
//@ before? Ok(None)
    proof { lemma_first_single(subtables@, glyph_index, subtables@.len() as int); assert(subtables@.subrange(subtables@.len() as int, subtables@.len() as int).len() == 0); }
//@ spec
    ensures r == first_single(subtables@, glyph.glyph_index)
//@ end

//@ fn src/gsub.rs | singlesubst
//@ ret r
//@ spec
    ensures
        first_single(subtables@, old(glyph).glyph_index) is Err ==> r is Err && *final(glyph) == *old(glyph),
        first_single(subtables@, old(glyph).glyph_index) is Ok ==> r is Ok,
        first_single(subtables@, old(glyph).glyph_index) == Ok::<Option<u16>, ParseError>(None) ==> *final(glyph) == *old(glyph),
        first_single(subtables@, old(glyph).glyph_index) is Ok && first_single(subtables@, old(glyph).glyph_index)->Ok_0 is Some ==> ({
            &&& final(glyph).glyph_index == first_single(subtables@, old(glyph).glyph_index)->Ok_0->Some_0
            &&& final(glyph).glyph_origin == GlyphOrigin::Direct
            &&& final(glyph).unicodes == old(glyph).unicodes && final(glyph).liga_component_pos == old(glyph).liga_component_pos
            &&& final(glyph).variation == old(glyph).variation && final(glyph).extra_data == old(glyph).extra_data
            &&& final(glyph).flags == (if subst_tag == 0x76657274 || subst_tag == 0x76727432 { flags_set(old(glyph).flags, RawGlyphFlags::IS_VERT_ALT, true) } else { old(glyph).flags })
        }),
//@ end


pub open spec fn miss_alt(s: AlternateSubst, g: u16) -> bool { spec_alt(s, g) is Ok && spec_alt(s, g)->Ok_0 is None }
pub open spec fn first_alt(subs: Seq<AlternateSubst>, g: u16) -> Result<Option<AlternateSet>, ParseError>
    decreases subs.len()
{
    if subs.len() == 0 { Ok(None) } else if miss_alt(subs[0], g) { first_alt(subs.subrange(1, subs.len() as int), g) } else { spec_alt(subs[0], g) }
}
proof fn lemma_first_alt(subs: Seq<AlternateSubst>, g: u16, k: int)
    requires 0 <= k <= subs.len(), forall|m: int| 0 <= m < k ==> miss_alt(#[trigger] subs[m], g)
    ensures first_alt(subs, g) == first_alt(subs.subrange(k, subs.len() as int), g)
    decreases k
{
    if k > 0 {
        let t = subs.subrange(1, subs.len() as int);
        assert(forall|m: int| 0 <= m < k - 1 ==> miss_alt(#[trigger] t[m], g)) by { assert(forall|m: int| 0 <= m < k - 1 ==> t[m] == subs[m + 1]); }
        lemma_first_alt(t, g, k - 1);
        assert(t.subrange(k - 1, t.len() as int) =~= subs.subrange(k, subs.len() as int));
    } else { assert(subs.subrange(0, subs.len() as int) =~= subs); }
}

//@ fn src/gsub.rs | alternatesubst_would_apply
//@ ret r
//@ iter 1 it
//@ loop 1
        invariant glyph_index == glyph.glyph_index, forall|m: int| 0 <= m < it.index@ ==> miss_alt(#[trigger] subtables@[m], glyph_index),
//@ before? if let Some(alternate_set) = alternate_subst.apply_glyph(glyph_index)? {
        proof {
            assert(*alternate_subst == subtables@[it.index@ as int]);
            lemma_first_alt(subtables@, glyph_index, it.index@ as int);
            let rest = subtables@.subrange(it.index@ as int, subtables@.len() as int);
            assert(rest[0] == subtables@[it.index@ as int]);
        }
//@ before? Ok(None)
    proof { lemma_first_alt(subtables@, glyph_index, subtables@.len() as int); assert(subtables@.subrange(subtables@.len() as int, subtables@.len() as int).len() == 0); }
//@ spec
    ensures
        r is Ok == first_alt(subtables@, glyph.glyph_index) is Ok,
        r is Ok ==> (r->Ok_0 is Some) == (first_alt(subtables@, glyph.glyph_index)->Ok_0 is Some),
        r is Ok && r->Ok_0 is Some ==> *r->Ok_0->Some_0 == first_alt(subtables@, glyph.glyph_index)->Ok_0->Some_0,
//@ end

//@ fn src/gsub.rs | alternatesubst
//@ ret r
//@ spec
    ensures
        first_alt(subtables@, old(glyph).glyph_index) is Err ==> r is Err && *final(glyph) == *old(glyph),
        first_alt(subtables@, old(glyph).glyph_index) is Ok ==> r is Ok,
        // the requested alternate replaces the glyph when the alternate set has one at that index; nothing else changes
        first_alt(subtables@, old(glyph).glyph_index) is Ok ==> ({
            let hit = first_alt(subtables@, old(glyph).glyph_index)->Ok_0;
            if hit is Some && alternate < hit->Some_0.alternate_glyphs@.len() {
                &&& final(glyph).glyph_index == hit->Some_0.alternate_glyphs@[alternate as int]
                &&& final(glyph).glyph_origin == GlyphOrigin::Direct
                &&& final(glyph).unicodes == old(glyph).unicodes && final(glyph).liga_component_pos == old(glyph).liga_component_pos
                &&& final(glyph).variation == old(glyph).variation && final(glyph).flags == old(glyph).flags && final(glyph).extra_data == old(glyph).extra_data
            } else { *final(glyph) == *old(glyph) }
        }),
//@ end

} // verus!
fn main() {}
