//@ unit C11_bits
//@ props C11 C01
//@ strength proved-unbounded
//@ min-verified 14
//@ unverified the callers in Woff2GlyfTable::read_dep that index the bbox bitmap by glyph number (Kani unit C11_dec covers the bitmap length arithmetic)
// Verification unit C11_bits (property C11): the WOFF2 bboxBitmap accessor. Glyph number i corresponds to bit (7 - i mod 8),
// counted from the least significant bit, of byte i div 8 (WOFF2 §5.1: "most significant bit of the first byte is glyph 0").
use vstd::prelude::*;
verus! {

//@ item src/woff2.rs | struct BitSlice | derive=

/// WOFF2 specification: bit for glyph `i` of a packed bitmap
pub open spec fn spec_bit(data: Seq<u8>, i: int) -> bool { (data[i / 8] as int / pow2_int(7 - i % 8)) % 2 == 1 }
pub open spec fn pow2_int(k: int) -> int { if k <= 0 { 1 } else if k == 1 { 2 } else if k == 2 { 4 } else if k == 3 { 8 } else if k == 4 { 16 } else if k == 5 { 32 } else if k == 6 { 64 } else { 128 } }

proof fn lemma_mask(b: u8, shl: u8)
    requires shl < 8
    ensures ((b & (1u8 << shl)) == (1u8 << shl)) == ((b as int / pow2_int(shl as int)) % 2 == 1)
{
    assert(((b & (1u8 << shl)) == (1u8 << shl)) == (((b >> shl) & 1u8) == 1u8)) by(bit_vector) requires shl < 8;
    assert(((b >> shl) & 1u8) == (b >> shl) % 2u8) by(bit_vector);
    if shl == 0 { assert((b >> shl) == b / 1u8) by(bit_vector) requires shl == 0; }
    else if shl == 1 { assert((b >> shl) == b / 2u8) by(bit_vector) requires shl == 1; }
    else if shl == 2 { assert((b >> shl) == b / 4u8) by(bit_vector) requires shl == 2; }
    else if shl == 3 { assert((b >> shl) == b / 8u8) by(bit_vector) requires shl == 3; }
    else if shl == 4 { assert((b >> shl) == b / 16u8) by(bit_vector) requires shl == 4; }
    else if shl == 5 { assert((b >> shl) == b / 32u8) by(bit_vector) requires shl == 5; }
    else if shl == 6 { assert((b >> shl) == b / 64u8) by(bit_vector) requires shl == 6; }
    else { assert((b >> shl) == b / 128u8) by(bit_vector) requires shl == 7; }
}

impl<'a> BitSlice<'a> {
//@ fn src/woff2.rs | impl<'a> BitSlice<'a> | len
//@ ret r
//@ spec
    requires self.data@.len() * 8 <= usize::MAX
    ensures r == self.data@.len() * 8
//@ end

//@ fn src/woff2.rs | impl<'a> BitSlice<'a> | get
//@ ret r
//@ after let mask = 1 << shl;
        proof { lemma_mask(self.data@[byte_index as int], shl as u8); }
//@ spec
    requires self.data@.len() * 8 <= usize::MAX
    ensures
        index >= self.data@.len() * 8 ==> r is None,
        index < self.data@.len() * 8 ==> r == Some(spec_bit(self.data@, index as int)),
//@ end
}

fn witness_bits(data: &[u8])
    requires data@.len() == 2, data@[0] == 0x80u8, data@[1] == 0x01u8
{
    let b = BitSlice { data };
    let r0 = b.get(0); let r1 = b.get(1); let r15 = b.get(15); let r16 = b.get(16);
    assert(r0 == Some(true)); assert(r1 == Some(false)); assert(r15 == Some(true)); assert(r16 is None);
}

} // verus!
fn main() {}
