#!/usr/bin/env python3
"""check.py <property> --tier quick|thorough      decide one property (DESIGN.md §2.4)
   check.py --replay <replay file>                 re-run a recorded violation against the current /repo
   check.py --unit <unit> [--tier t]               developer: run one unit, print its result

exit 0  every obligation discharged (KNOWN-FINDING lines allowed)
exit 1  `VIOLATION property=<id> replay=<path>[ no-failing-input-found]`
exit 2  undecided (`UNDECIDED property=<id> reason=...`): lost anchor, unsupported construct, timeout, vacuity guard
"""
import os, sys, json, re, time, hashlib, argparse, concurrent.futures as cf

sys.path.insert(0, os.path.dirname(os.path.abspath(__file__)))
import vlib  # noqa

VERIF = vlib.VERIF
OUT = os.environ.get('VERIF_OUT', VERIF)
PROPS = {json.loads(l)['id']: json.loads(l) for l in open(os.path.join(VERIF, 'properties.jsonl'))}

GLOBAL_ASSUMPTIONS = [
    'rustc/LLVM and the Rust standard library are correct',
    'Verus 0.2026.09.13 + Z3: machine integers are bounded (overflow is an obligation, not mathematical); vstd specifications of Vec, slices, Option, Result, checked_* are trusted',
    'Kani 0.68 + CBMC 6.11: bit-precise semantics incl. IEEE floats; Kani model of alloc; 64-bit usize',
    'extraction rules R1-R7 of tools/extract.py preserve meaning (visibility, get_unchecked->index with the index obligation, attribute/doc removal, named returns, associated types of a trait impl replaced by their definitions in that impl)',
    'composition of the functions under contract with the unverified surroundings listed in unverified_surroundings',
]


def load_known():
    path = os.path.join(VERIF, 'known_findings.txt')
    out = []
    if not os.path.exists(path):
        return out
    for ln in open(path, encoding='utf-8'):
        ln = ln.strip()
        if not ln.startswith('finding:'):
            continue
        d = {}
        for m in re.finditer(r'(\w+)=("([^"]*)"|\S+)', ln[len('finding:'):]):
            d[m.group(1)] = m.group(3) if m.group(3) is not None else m.group(2)
        out.append(d)
    return out


def match_known_verus(known, prop, unit, err):
    for k in known:
        if prop not in k.get('property', '').split(','):
            continue
        if k.get('unit') != unit or k.get('engine', 'verus') != 'verus':
            continue
        if k.get('fn') and k['fn'] != err['fn'].split('::')[-1] and k['fn'] != err['fn']:
            continue
        if k.get('kind') and k['kind'] != err['kind']:
            continue
        if k.get('expr') and re.sub(r'\s+', '', k['expr']) not in re.sub(r'\s+', '', err['raw']):
            continue
        return k
    return None


def match_known_kani(known, prop, unit, harness, fc):
    for k in known:
        if prop not in k.get('property', '').split(','):
            continue
        if k.get('unit') != unit or k.get('harness') != harness:
            continue
        if k.get('check') and k['check'] not in fc['desc']:
            continue
        if k.get('infn') and k['infn'] not in fc['fn']:
            continue
        return k
    return None


def write_replay(prop, unit, engine, obligation, body, test=None, harness=None):
    os.makedirs(os.path.join(OUT, 'replays'), exist_ok=True)
    h = hashlib.sha1((unit + obligation + (test or body)).encode()).hexdigest()[:10]
    path = os.path.join(OUT, 'replays', f'{prop}-{unit}-{h}.rs')
    with open(path, 'w', encoding='utf-8') as f:
        f.write(f'// REPLAY property={prop} unit={unit} engine={engine} harness={harness or "-"}\n')
        f.write(f'// failed obligation: {obligation}\n')
        f.write(f'// input: {"concrete playback test below (run natively against the real code by check.py --replay)" if test else "no-failing-input-found"}\n')
        f.write('// verifier output:\n')
        for ln in body.split('\n'):
            f.write('//   ' + ln + '\n')
        if test:
            f.write('\n' + test + '\n')
    return path


def run_property(prop, tier, seed, only_units=None):
    t0 = time.time()
    units = [u for u in vlib.all_units() if prop in u['props'] or (only_units and u['unit'] in only_units)]
    if only_units:
        units = [u for u in units if u['unit'] in only_units]
    vunits = [u for u in units if u['engine'] == 'verus']
    kunits = [vlib.parse_kani_unit(u['path']) | {'engine': 'kani'} for u in units if u['engine'] == 'kani']
    # harness-level property filter
    for ku in kunits:
        ku['harnesses'] = [h for h in ku['harnesses'] if (h['props'] is None or prop in h['props'] or only_units)]
    known = load_known()
    vres = []
    with cf.ThreadPoolExecutor(max_workers=8) as ex:
        futs = [ex.submit(vlib.run_verus_unit, u) for u in vunits]
        kres = vlib.run_kani(kunits, tier, jobs=int(os.environ.get('VERIF_JOBS', '8'))) if kunits else {'harnesses': [], 'undecided': [], 'wall_s': 0, 'build_s': 0}
        vres = [f.result() for f in futs]

    violations, undecided, known_lines = [], [], []
    obligations = discharged = 0
    bounded_units, fns, samples, drops, assumptions = [], [], [], set(), list(GLOBAL_ASSUMPTIONS)
    unverified, trusted = [], []
    solver = {'z3_via_verus_s': 0.0, 'cbmc_s': 0.0}
    for u in units:
        for a in u['assume']:
            trusted.append(f"{u['unit']}: {a}")
        for a in u['unverified']:
            unverified.append(f"{u['unit']}: {a}")

    kani_ok_fns = set()
    for hr in kres['harnesses']:
        if hr['status'] == 'ok':
            kani_ok_fns |= set(hr['fns'])
    for r in vres:
        solver['z3_via_verus_s'] += r.get('smt_ms', 0) / 1000.0
        obligations += r['verified'] + r.get('n_errors', 0)
        discharged += r['verified']
        fns += r.get('fns_under_contract', [])
        drops |= set(r.get('drops', []))
        for a in r.get('assumptions_scan', []):
            trusted.append(f"{r['unit']}: generated file contains {a} (declared in the unit template)")
        for f in r['functions'][:2]:
            samples.append({'unit': r['unit'], 'engine': 'verus', 'function': f['function'], 'smt_ms': f['ms'], 'discharged': f['success']})
        for reason in r['undecided']:
            undecided.append(f"{r['unit']}: {reason}")
        errs = r['errors']
        real = []
        for e in errs:
            k = match_known_verus(known, prop, r['unit'], e)
            if k:
                known_lines.append(f"KNOWN-FINDING: property={prop} unit={r['unit']} fn={e['fn']} {e['kind']}: {k.get('what', '')}")
            else:
                real.append(e)
        if not real:
            continue
        contract = [e for e in real if e['kind'] in vlib.CONTRACT_KINDS and not e['fn'].startswith('witness_')]
        aux = [e for e in real if e not in contract]
        # A failed hint `assert` inside a sliced real function masks the contract obligations behind it (Verus assumes it afterwards).
        # It is an obligation that was discharged on the validated tree and now fails: reported as a violation without input,
        # unless a Kani harness exercising the same function passed in this run (then: proof maintenance, undecided).
        for e in aux:
            if e['sliced'] and e['kind'] == 'assert':
                short = '::'.join(re.sub(r'<[^>]*>', '', re.sub(r'^impl.*?\bfor\s+|^impl(<[^>]*>)?\s*', '', seg)).strip() for seg in e['fn'].split('::')[-2:])
                short = re.sub(r'\s+', '', short)
                if short in kani_ok_fns or e['fn'].split('::')[-1] in kani_ok_fns:
                    continue
                contract.append(e)
        if not contract:
            undecided.append(f"{r['unit']}: only auxiliary obligations failed ({', '.join(sorted(set(e['kind'] + '@' + e['fn'] for e in real)))}); proof needs maintenance")
            continue
        for e in contract:
            violations.append({'unit': r['unit'], 'engine': 'verus', 'obligation': f"{e['kind']} in {e['fn']}: {e['text']}", 'body': e['raw'], 'test': None, 'fn': e['fn']})

    for reason in kres['undecided']:
        undecided.append('kani: ' + reason)
    kunit_by_name = {u['unit']: u for u in kunits}
    for hr in kres['harnesses']:
        solver['cbmc_s'] += hr['time_s']
        proofish = not hr['kind'].startswith('bounded')
        nfail = len(hr['failed'])
        if proofish:
            obligations += hr['checks']
            discharged += hr['checks'] - nfail - len(hr['ignored']) if hr['status'] != 'undecided' else 0
            # ignored checks (float-SIMD pseudo overflow) are not obligations of the contract
            obligations -= len(hr['ignored'])
        else:
            bounded_units.append({'unit': hr['unit'], 'harness': hr['harness'], 'bound': hr['kind'][len('bounded'):].lstrip(':') or 'see unit',
                                  'checks': hr['checks'], 'failed': nfail, 'status': hr['status'], 'time_s': hr['time_s']})
        for f in hr['fns']:
            fns.append({'path': f, 'engine': 'kani', 'strength': hr['kind'], 'harness': hr['harness']})
        if len(samples) < 12:
            samples.append({'unit': hr['unit'], 'engine': 'kani', 'harness': hr['harness'], 'kind': hr['kind'], 'checks': hr['checks'], 'status': hr['status']})
        if hr['ignored']:
            trusted.append(f"{hr['unit']}::{hr['harness']}: {len(hr['ignored'])} failed check(s) ignored by name (informational NaN checks / declared ignore pattern)")
        if hr['status'] == 'undecided':
            undecided.append(f"{hr['unit']}::{hr['harness']}: {hr.get('reason', 'undecided')}")
            continue
        if hr['status'] != 'fail':
            continue
        real = []
        for fc in hr['failed']:
            k = match_known_kani(known, prop, hr['unit'], hr['harness'], fc)
            if k:
                if proofish:
                    obligations -= 1   # a listed known finding is reported, not counted as an obligation of the proof claim
                known_lines.append(f"KNOWN-FINDING: property={prop} unit={hr['unit']} harness={hr['harness']} {fc['desc']} @ {fc['loc']}: {k.get('what', '')}")
            else:
                real.append(fc)
        if not real:
            continue
        pb = hr.get('playback') or {}
        desc = '; '.join(sorted(set(f"{fc['desc']} @ {fc['loc']} in {fc['fn']}" for fc in real)))
        violations.append({'unit': hr['unit'], 'engine': 'kani', 'harness': hr['harness'], 'obligation': desc,
                           'body': pb.get('log', ''), 'test': pb.get('test'), 'fn': ','.join(hr['fns'])})

    # write replay files, print lines
    for ln in sorted(set(known_lines)):
        print(ln)
    vio_lines = []
    for v in violations:
        path = write_replay(prop, v['unit'], v['engine'], v['obligation'], v['body'], v['test'], v.get('harness'))
        vio_lines.append(f"VIOLATION property={prop} replay={path}" + ('' if v['test'] else ' no-failing-input-found'))
    for ln in vio_lines:
        print(ln)
    for u in undecided:
        print(f'UNDECIDED property={prop} reason={u}')

    bounded_checks = sum(b['checks'] for b in bounded_units)
    if obligations == 0 and bounded_checks == 0 and not undecided and not violations:
        undecided.append('vacuity guard: zero obligations')
        print(f'UNDECIDED property={prop} reason=zero obligations generated')

    wall = time.time() - t0
    ev = {
        'property_id': prop, 'tier': tier, 'seed': seed, 'level': 'proof' if obligations > 0 else 'model_checking',
        'coverage': {
            **({'obligations': obligations, 'discharged': discharged} if obligations > 0 else
               {'evaluations': bounded_checks, 'distinct_nontrivial': len([b for b in bounded_units if b['status'] == 'ok']),
                'rule': 'only bounded Kani harnesses decide this property in this run: evaluations = CBMC checks of those harnesses, distinct_nontrivial = harnesses that passed with every reachability cover satisfied'}),
            'checker_cmd': f'python3 tools/check.py {prop} --tier {tier}  (verus <gen>/<unit>.rs --output-json --time --multiple-errors 8 ; cargo kani -Z function-contracts -Z stubbing --output-format=terse -j N --harness ...)',
            'trusted_base': sorted(set(trusted)),
            'explanation': 'obligations = Verus verification units (one per function/lemma/loop bundle, as counted by verus) of every unit serving this property + CBMC checks of Kani complete/contract harnesses; bounded harnesses are listed separately under bounded_units and are NOT counted.',
            'samples': samples[:12],
            'functions_under_contract': fns,
            'bounded_units': bounded_units,
            'solver_time_s': {k: round(v, 2) for k, v in solver.items()},
            'kani_build_s': kres.get('build_s', 0),
            'extraction_drops': sorted(drops),
            'unverified_surroundings': sorted(set(unverified)),
            'undecided': undecided,
            'known_findings_reported': sorted(set(known_lines)),
            'units': [{'unit': r['unit'], 'engine': 'verus', 'verified': r['verified'], 'errors': r.get('n_errors', 0), 'clauses': r.get('clauses'), 'status': r['status'], 'wall_s': round(r.get('wall_s', 0), 1)} for r in vres]
                     + [{'unit': k, 'engine': 'kani', 'harnesses': [h['harness'] for h in kres['harnesses'] if h['unit'] == k]} for k in kunit_by_name],
        },
        'assumptions': assumptions + sorted(set(trusted)),
        'wall_s': round(wall, 2),
        'violations': len(violations),
    }
    os.makedirs(os.path.join(OUT, 'evidence'), exist_ok=True)
    json.dump(ev, open(os.path.join(OUT, 'evidence', prop + '.json'), 'w'), indent=1)
    if violations:
        return 1
    if undecided:
        return 2
    return 0


def do_replay(path):
    txt = open(path, encoding='utf-8').read()
    m = re.match(r'// REPLAY property=(\S+) unit=(\S+) engine=(\S+) harness=(\S+)', txt)
    if not m:
        print('not a replay file'); return 2
    prop, unit, engine, harness = m.groups()
    if engine == 'kani' and 'fn kani_concrete_playback' in txt:
        test = txt[txt.index('#[test]'):] if '#[test]' in txt else txt[txt.index('fn kani_concrete_playback'):]
        u = [vlib.parse_kani_unit(x['path']) for x in vlib.all_units() if x['unit'] == unit and x['engine'] == 'kani'][0]
        rc, log = vlib.native_replay(u, test)
        print(log[-2500:])
        if rc != 0:
            print(f'VIOLATION property={prop} replay={path}')
            return 1
        print('replay: the real code no longer fails this input')
        return 0
    # no concrete input: re-run the unit and see whether the obligation still fails
    m2 = re.search(r'// failed obligation: (.*)', txt)
    rc = run_property(prop, 'quick', 0, only_units=[unit])
    return rc


def main():
    ap = argparse.ArgumentParser()
    ap.add_argument('prop', nargs='?')
    ap.add_argument('--tier', default=os.environ.get('VERIF_TIER', 'quick'))
    ap.add_argument('--replay')
    ap.add_argument('--unit', action='append')
    a = ap.parse_args()
    seed = int(os.environ.get('VERIF_SEED', '0') or 0)
    if a.replay:
        sys.exit(do_replay(a.replay))
    if a.prop not in PROPS:
        print('unknown property', a.prop); sys.exit(2)
    if a.unit and 'VERIF_OUT' not in os.environ:
        # developer run of single units: never overwrite the property's evidence file with a partial run
        global OUT
        OUT = os.path.join(vlib.GEN, 'unit_out')
    rc = run_property(a.prop, a.tier, seed, only_units=a.unit)
    sys.exit(rc)


if __name__ == '__main__':
    main()
