#!/bin/bash
# developer helper: run the full quick check of the owning property against every stored seeded change (applies to /repo, reverts)
cd /verif
for d in ${@:-seeded/*}; do
  id=$(basename $d); prop=${id%%-*}
  if ! git -C /repo apply --check $(readlink -f $d)/patch.diff 2>/dev/null; then echo "$id PATCH-DOES-NOT-APPLY"; continue; fi
  git -C /repo apply $(readlink -f $d)/patch.diff
  s=$(date +%s); VERIF_OUT=/tmp/seeded_run_out python3 tools/check.py $prop --tier quick > /tmp/seeded_$id.out 2>&1; rc=$?; e=$(date +%s)
  git -C /repo checkout -- .
  echo "$id rc=$rc $((e-s))s $(grep '^VIOLATION' /tmp/seeded_$id.out | sed 's/.*replays.//' | cut -c1-60 | tr '\n' ' ') $(grep -c '^UNDECIDED' /tmp/seeded_$id.out) undecided"
done
