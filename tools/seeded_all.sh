#!/bin/bash
# developer helper: run the quick check of the owning property against stored seeded changes (applies to /repo, reverts).
# arguments: <id>[:unit1,unit2]...   (with units: only those units; without: the full property check)
cd /verif
for spec in "$@"; do
  id=${spec%%:*}; units=""; [[ "$spec" == *:* ]] && units=${spec#*:}
  d=seeded/$id; prop=${id%%-*}
  if ! git -C /repo apply --check $(readlink -f $d)/patch.diff 2>/dev/null; then echo "$id PATCH-DOES-NOT-APPLY"; continue; fi
  git -C /repo apply $(readlink -f $d)/patch.diff
  args=""; for u in ${units//,/ }; do args="$args --unit $u"; done
  s=$(date +%s); VERIF_OUT=/tmp/seeded_run_out python3 tools/check.py $prop --tier quick $args > /tmp/seeded_$id.out 2>&1; rc=$?; e=$(date +%s)
  git -C /repo checkout -- .
  echo "$id units=[${units:-ALL}] rc=$rc $((e-s))s $(grep '^VIOLATION' /tmp/seeded_$id.out | sed 's/.*replays.//' | cut -c1-70 | tr '\n' ' ') undecided=$(grep -c '^UNDECIDED' /tmp/seeded_$id.out)"
done
