#!/usr/bin/env python3
"""Rust-aware slicer + contract splicer for the Verus engine (DESIGN.md §2.1).

A *template* (contracts/verus/<unit>.rs) is ordinary Verus text plus directive
lines starting with `//@`.  Directives pull the CURRENT text of items out of
/repo and splice contracts into them; everything else is copied through.

  //@ item <file> | <kind> <name> [| opt=val ...]
        kind in struct|enum|const|type|static|fn|trait ; emits the item after rules 1,3,4
        options: derive=Copy,Clone   (derives to keep; default Copy,Clone)
                 nopub               (do not normalise visibility)
  //@ fn <file> | <container> | ... | <name> [| opt ...]
        containers: an impl header exactly as in the source up to `{` (whitespace-normalised),
                    or `fn <name>` / `mod <name>` / `trait <name>`.
        options: nopub, unsafe=keep
      sub-directives until `//@ end`:
  //@   ret <name>             name the return value: `-> T` becomes `-> (name: T)`
  //@   spec                   following plain lines = requires/ensures/decreases clauses
  //@   loop <n>               following lines = invariant/decreases clauses of the n-th loop (1-based, textual order)
  //@   iter <n> <ghost>       `for P in E` of the n-th loop becomes `for P in ghost: E`
  //@   after <anchor>         following lines inserted after the first body line containing anchor
  //@   before <anchor>        … before that line
  //@   rename <old> => <new>  rule-5 wrapper renaming of a call (listed in extraction_drops)
  //@ end

Fixed rewriting rules (the ONLY edits to sliced text; each use is recorded):
  R1 visibility -> pub (items, fields, fns; not in trait impls)
  R2 `*X.get_unchecked(E)` -> `X[E]`
  R3 `enum N {}` -> `struct N;`
  R4 attributes dropped except derive(kept subset); doc comments dropped
  R5 call renamings requested by `rename`
  R6 ghost iterator name / named return value
  R7 (`assoc` sub-directive, trait-impl fns only) the fn is emitted as a free function: `Self::Name<..>` is replaced by the
     definition `type Name<..> = ...;` found in the SAME impl block and `Self` by the impl's self type (Verus has no GATs)
"""
import re, sys, os, json, hashlib


class LostAnchor(Exception):
    pass


# --------------------------------------------------------------------------
# lexical blanking: same length, comments / string / char contents -> spaces

def blank(src):
    out = list(src)
    i, n = 0, len(src)
    while i < n:
        c = src[i]
        if c == '/' and i + 1 < n and src[i + 1] == '/':
            j = src.find('\n', i)
            j = n if j < 0 else j
            for k in range(i, j):
                out[k] = ' '
            i = j
        elif c == '/' and i + 1 < n and src[i + 1] == '*':
            depth, j = 1, i + 2
            while j < n and depth:
                if src.startswith('/*', j):
                    depth += 1; j += 2
                elif src.startswith('*/', j):
                    depth -= 1; j += 2
                else:
                    j += 1
            for k in range(i, j):
                if out[k] != '\n':
                    out[k] = ' '
            i = j
        elif c == '"' or (c == 'r' and re.match(r'r#*"', src[i:i + 8]) and (i == 0 or not (src[i - 1].isalnum() or src[i - 1] == '_'))) \
                or (c == 'b' and i + 1 < n and src[i + 1] == '"' and (i == 0 or not (src[i - 1].isalnum() or src[i - 1] == '_'))):
            if c == 'b':
                i += 1
                c = '"'
            if c == 'r':
                m = re.match(r'r(#*)"', src[i:])
                hashes = m.group(1)
                start = i + len(m.group(0))
                end = src.find('"' + hashes, start)
                end = n if end < 0 else end
                for k in range(start, end):
                    if out[k] != '\n':
                        out[k] = ' '
                i = end + 1 + len(hashes)
            else:
                j = i + 1
                while j < n and src[j] != '"':
                    if src[j] == '\\':
                        j += 1
                    j += 1
                for k in range(i + 1, min(j, n)):
                    if out[k] != '\n':
                        out[k] = ' '
                i = j + 1
        elif c == "'":
            # char literal or lifetime
            m = re.match(r"'(\\.[^']*|[^\\'])'", src[i:i + 14])
            if m:
                for k in range(i + 1, i + len(m.group(0)) - 1):
                    out[k] = ' '
                i += len(m.group(0))
            else:
                i += 1
        else:
            i += 1
    return ''.join(out)


def match_close(b, i):
    """b: blanked text, i: index of an opening bracket. returns index of its partner."""
    op = b[i]
    cl = {'{': '}', '(': ')', '[': ']'}[op]
    depth = 0
    for j in range(i, len(b)):
        if b[j] == op:
            depth += 1
        elif b[j] == cl:
            depth -= 1
            if depth == 0:
                return j
    raise LostAnchor('unbalanced bracket')


def norm_ws(s):
    return re.sub(r'\s+', ' ', s).strip()


def depth0_positions(b, start, end):
    """yield (idx, char) for positions in [start,end) at brace depth 0 relative to start"""
    depth = 0
    for j in range(start, end):
        ch = b[j]
        if ch == '{':
            depth += 1
        elif ch == '}':
            depth -= 1
        yield j, ch, depth


def item_start(src, b, kw_pos, lo):
    """walk back from keyword position over visibility, qualifiers, attributes and doc comments"""
    # go to the beginning of the line region: accept preceding tokens pub/unsafe/const/async/extern and attrs
    i = kw_pos
    while True:
        # skip whitespace backwards
        j = i
        while j > lo and src[j - 1] in ' \t\n':
            j -= 1
        # qualifiers
        m = re.search(r'(pub(\s*\([^)]*\))?|unsafe|const|async|default|extern(\s*"[^"]*")?)$', src[lo:j])
        if m and (m.start() + lo == lo or not (src[m.start() + lo - 1].isalnum() or src[m.start() + lo - 1] == '_')):
            i = lo + m.start()
            continue
        # attribute ending here
        if j > lo and b[j - 1] == ']':
            # find matching '['
            depth = 0
            k = j - 1
            while k >= lo:
                if b[k] == ']':
                    depth += 1
                elif b[k] == '[':
                    depth -= 1
                    if depth == 0:
                        break
                k -= 1
            if k > lo and src[k - 1] == '#':
                i = k - 1
                continue
            if k > lo + 1 and src[k - 2:k] == '#!':
                break
        # doc/line comment on the previous line(s)
        line_start = src.rfind('\n', lo, j - 1 if j > lo else lo) + 1 if j > lo else lo
        prev_line = src[line_start:j]
        if prev_line.strip().startswith('//'):
            i = line_start
            continue
        break
    return i


def find_in_region(src, b, lo, hi, kind, name):
    """find `kind name` item at brace depth 0 inside [lo,hi). returns (start, end, header_end, body_open)"""
    pat = re.compile(r'\b' + kind + r'\s+' + re.escape(name) + r'\b')
    depth = 0
    j = lo
    # precompute depth per position lazily
    depths = {}
    d = 0
    pos_depth = []
    for k in range(lo, hi):
        ch = b[k]
        if ch == '}':
            d -= 1
        pos_depth.append(d)
        if ch == '{':
            d += 1
    for m in pat.finditer(b, lo, hi):
        if pos_depth[m.start() - lo] != 0:
            continue
        # find end: first of '{' or ';' at paren depth 0 after match
        k = m.end()
        pd = 0
        body_open = None
        end = None
        while k < hi:
            ch = b[k]
            if ch in '([':
                pd += 1
            elif ch in ')]':
                pd -= 1
            elif ch == '<':
                pass
            elif ch == '{' and pd == 0:
                body_open = k
                end = match_close(b, k) + 1
                break
            elif ch == ';' and pd == 0:
                end = k + 1
                break
            k += 1
        if end is None:
            continue
        start = item_start(src, b, m.start(), lo)
        # tuple struct: `struct X(...)` followed by `;` handled by ';' branch
        return start, end, body_open
    raise LostAnchor(f'{kind} {name} not found')


def find_impls(src, b, lo, hi, header):
    """all impl blocks at depth 0 in region whose header (text up to '{', ws-normalised) equals header"""
    want = norm_ws(header)
    res = []
    d = 0
    k = lo
    for m in re.finditer(r'\bimpl\b', b[lo:hi]):
        pos = lo + m.start()
        # depth check
        dd = b.count('{', lo, pos) - b.count('}', lo, pos)
        if dd != 0:
            continue
        ob = b.find('{', pos, hi)
        if ob < 0:
            continue
        # where-clauses may contain no braces; header = src[pos:ob]
        if norm_ws(b[pos:ob]) == want or norm_ws(re.sub(r'\bwhere\b.*', '', b[pos:ob], flags=re.S)) == want:
            res.append((pos, ob, match_close(b, ob)))
    return res


class Source:
    cache = {}

    def __init__(self, repo, rel):
        self.rel = rel
        path = os.path.join(repo, rel)
        if not os.path.exists(path):
            raise LostAnchor(f'file {rel} missing')
        self.src = open(path, encoding='utf-8').read()
        self.b = blank(self.src)

    @classmethod
    def get(cls, repo, rel):
        key = (repo, rel)
        if key not in cls.cache:
            cls.cache[key] = Source(repo, rel)
        return cls.cache[key]

    def locate(self, containers, kind, name):
        """returns (start, end, body_open, in_trait_impl)"""
        regions = [(0, len(self.src))]
        in_trait_impl = False
        for c in containers:
            c = c.strip()
            new = []
            if c.startswith('impl'):
                for lo, hi in regions:
                    for pos, ob, cb in find_impls(self.src, self.b, lo, hi, c):
                        new.append((ob + 1, cb))
                in_trait_impl = bool(re.search(r'\bfor\b', re.sub(r'<[^<>]*>', '', c)))
            else:
                ck, cn = c.split()
                for lo, hi in regions:
                    try:
                        s, e, ob = find_in_region(self.src, self.b, lo, hi, ck, cn)
                        if ob is not None:
                            new.append((ob + 1, e - 1))
                    except LostAnchor:
                        pass
                in_trait_impl = False
            if not new:
                raise LostAnchor(f'{self.rel}: container `{c}` not found')
            regions = new
        for lo, hi in regions:
            try:
                s, e, ob = find_in_region(self.src, self.b, lo, hi, kind, name)
                return s, e, ob, in_trait_impl
            except LostAnchor:
                continue
        raise LostAnchor(f'{self.rel}: {kind} {name} not found in {containers}')


# --------------------------------------------------------------------------
# rewriting rules

def strip_attrs_and_docs(text, keep_derive):
    """R4: remove leading/inner attributes except filtered derive; remove doc comments."""
    b = blank(text)
    out = []
    i = 0
    n = len(text)
    drops = 0
    while i < n:
        if b[i] == '#' and i + 1 < n and b[i + 1] == '[':
            cb = match_close(b, i + 1)
            attr = text[i:cb + 1]
            m = re.match(r'#\[\s*derive\s*\((.*)\)\s*\]$', attr, re.S)
            if m:
                kept = [d.strip() for d in m.group(1).split(',') if d.strip() in keep_derive]
                if kept:
                    out.append('#[derive(' + ', '.join(kept) + ')]')
            drops += 1
            i = cb + 1
            continue
        out.append(text[i])
        i += 1
    t = ''.join(out)
    # doc comments
    t2 = re.sub(r'(?m)^[ \t]*///.*\n', '', t)
    return t2


def pub_item(text, kind):
    """R1 for item heads"""
    t = re.sub(r'^(\s*(?:#\[[^\]]*\]\s*)*)(?:pub(?:\s*\([^)]*\))?\s+)?((?:unsafe\s+|const\s+)?' + kind + r'\b)', r'\1pub \2', text, count=1, flags=re.S)
    return t


def pub_fields(text):
    """R1 for named / tuple struct fields"""
    b = blank(text)
    ms = re.search(r'\bstruct\s+\w+', b)
    st = ms.end() if ms else 0
    ob = b.find('{', st)
    op = b.find('(', st)
    semi = b.find(';', st)
    if ob >= 0 and (op < 0 or ob < op) and (semi < 0 or ob < semi):
        cb = match_close(b, ob)
        body = text[ob + 1:cb]
        bb = b[ob + 1:cb]
        # split at depth-0 commas
        parts, depth, last = [], 0, 0
        for k, ch in enumerate(bb):
            if ch in '<([{':
                depth += 1
            elif ch in '>)]}':
                if ch == '>' and k > 0 and bb[k - 1] == '-':
                    continue
                depth -= 1
            elif ch == ',' and depth == 0:
                parts.append(body[last:k]); last = k + 1
        parts.append(body[last:])
        newparts = []
        for p in parts:
            if re.search(r'\w+\s*:', p):
                p = re.sub(r'^(\s*)(?:pub(?:\s*\([^)]*\))?\s+)?(\w+\s*:)', r'\1pub \2', p, count=1)
            newparts.append(p)
        return text[:ob + 1] + ','.join(newparts) + text[cb:]
    if op >= 0 and (semi < 0 or op < semi):
        cp = match_close(b, op)
        body = text[op + 1:cp]
        bb = b[op + 1:cp]
        parts, depth, last = [], 0, 0
        for k, ch in enumerate(bb):
            if ch in '<([{':
                depth += 1
            elif ch in '>)]}':
                depth -= 1
            elif ch == ',' and depth == 0:
                parts.append(body[last:k]); last = k + 1
        parts.append(body[last:])
        newparts = []
        for p in parts:
            if p.strip():
                p = re.sub(r'^(\s*)(?:pub(?:\s*\([^)]*\))?\s+)?', r'\1pub ', p, count=1)
            newparts.append(p)
        return text[:op + 1] + ','.join(newparts) + text[cp:]
    return text


def rule_get_unchecked(text, log):
    """R2: *X.get_unchecked(E) -> X[E]"""
    while True:
        b = blank(text)
        m = re.search(r'\*\s*([A-Za-z_][\w\.]*)\s*\.\s*get_unchecked\s*\(', b)
        if not m:
            return text
        op = m.end() - 1
        cp = match_close(b, op)
        text = text[:m.start()] + m.group(1) + '[' + text[op + 1:cp] + ']' + text[cp + 1:]
        log.append('R2 get_unchecked->index')


def split_fn(text):
    """split a fn item into (head, body) where head ends just before the body's '{'"""
    b = blank(text)
    m = re.search(r'\bfn\b', b)
    k = m.end()
    pd = 0
    while k < len(b):
        ch = b[k]
        if ch in '([':
            pd += 1
        elif ch in ')]':
            pd -= 1
        elif ch == '{' and pd == 0:
            return text[:k], text[k:]
        elif ch == ';' and pd == 0:
            return text[:k], ''
        k += 1
    raise LostAnchor('fn without body')


def name_return(head, rname, log):
    b = blank(head)
    # find the parameter list's closing paren
    m = re.search(r'\bfn\b\s*\w+', b)
    k = m.end()
    # skip generics
    while k < len(b) and b[k] != '(':
        if b[k] == '<':
            depth = 0
            while k < len(b):
                if b[k] == '<':
                    depth += 1
                elif b[k] == '>' and b[k - 1] != '-':
                    depth -= 1
                    if depth == 0:
                        break
                k += 1
        k += 1
    cp = match_close(b, k)
    rest = head[cp + 1:]
    rb = b[cp + 1:]
    m2 = re.match(r'\s*->\s*', rb)
    if not m2:
        return head
    tstart = cp + 1 + m2.end()
    mw = re.search(r'\bwhere\b', b[tstart:])
    tend = tstart + mw.start() if mw else len(head)
    ty = head[tstart:tend].rstrip()
    trail = head[tstart + len(ty):tend]
    log.append('R6 named return')
    return head[:tstart] + '(' + rname + ': ' + ty + ')' + trail + head[tend:]


def find_loops(body):
    """positions (kw_start, body_open) of loops in textual order"""
    b = blank(body)
    res = []
    for m in re.finditer(r'\b(while|for|loop)\b', b):
        # exclude `for<'a>` HRTB
        if m.group(1) == 'for' and re.match(r"\s*<", b[m.end():]):
            continue
        k = m.end()
        pd = 0
        while k < len(b):
            ch = b[k]
            if ch in '([':
                pd += 1
            elif ch in ')]':
                pd -= 1
            elif ch == '{' and pd == 0:
                res.append((m.start(), k, m.group(1)))
                break
            k += 1
    return res


def rule_assoc(src_obj, containers, fn_start, text, log, name):
    """R7: substitute the associated types of the enclosing trait impl by their definitions in that impl"""
    hdr = containers[-1].strip()
    blocks = [(pos, ob, cb) for pos, ob, cb in find_impls(src_obj.src, src_obj.b, 0, len(src_obj.src), hdr) if ob < fn_start < cb]
    if not blocks:
        raise LostAnchor(f'{name}: enclosing impl `{hdr}` not found for assoc')
    pos, ob, cb = blocks[0]
    flat = re.sub(r'<[^<>]*>', '', hdr)
    m = re.search(r'\bfor\s+(.+)$', hdr)
    if not m or ' for ' not in (' ' + flat + ' '):
        raise LostAnchor(f'{name}: assoc needs a trait impl')
    self_ty = m.group(1).strip()
    region_b = src_obj.b[ob + 1:cb]
    region = src_obj.src[ob + 1:cb]
    defs = {}
    depth = 0
    for mm in re.finditer(r'\btype\s+(\w+)\s*(<[^=]*>)?\s*=\s*', region_b):
        if region_b.count('{', 0, mm.start()) != region_b.count('}', 0, mm.start()):
            continue
        end = region_b.find(';', mm.end())
        params = [x.strip() for x in (mm.group(2) or '<>')[1:-1].split(',') if x.strip()]
        defs[mm.group(1)] = (params, region[mm.end():end].strip())
    def sub_assoc(mo):
        nm = mo.group(1)
        if nm not in defs:
            return mo.group(0)
        params, rhs = defs[nm]
        args = [x.strip() for x in (mo.group(2) or '<>')[1:-1].split(',') if x.strip()]
        out = rhs
        for pa, ar in zip(params, args):
            if pa != ar:
                out = re.sub(re.escape(pa) + r'\b', ar, out)
        return out
    text = re.sub(r'\bSelf::(\w+)\s*(<[^<>]*>)?', sub_assoc, text)
    text = re.sub(r'\bSelf\b(?!\s*::)', self_ty, text)
    log.append('R7 associated types of the trait impl substituted by their definitions in that impl; emitted as a free fn')
    return text


def process_fn(src_obj, containers, name, opts, subs, log):
    s, e, ob, in_trait_impl = src_obj.locate(containers, 'fn', name)
    text = src_obj.src[s:e]
    original = text
    text = strip_attrs_and_docs(text, set())
    if 'nopub' not in opts and not in_trait_impl:
        text = pub_item(text, 'fn')
        log.append('R1 pub fn')
    elif in_trait_impl:
        text = re.sub(r'^(\s*)pub(\s*\([^)]*\))?\s+', r'\1', text, count=1)
    text = rule_get_unchecked(text, log)
    if any(kind == 'assoc' for kind, _, _ in subs):
        text = rule_assoc(src_obj, containers, s, text, log, name)
    head, body = split_fn(text)
    for kind, arg, lines in subs:
        if kind == 'rename':
            old, new = [x.strip() for x in arg.split('=>')]
            if old not in body:
                # a routing of a std call through its wrapper: when the call is gone the body is verified as it stands
                log.append(f'R5 rename source `{old}` absent: no renaming applied')
                continue
            body = body.replace(old, new)
            log.append(f'R5 rename {old} => {new}')
        if kind == 'rename-re':
            old, new = [x.strip() for x in arg.split('=>')]
            body, cnt = re.subn(old, new, body)
            if cnt == 0:
                log.append(f'R5 rename pattern /{old}/ absent: no renaming applied')
                continue
            log.append(f'R5 rename /{old}/ => {new}')
    # loops: process from last to first so offsets stay valid
    loops = find_loops(body)
    loop_edits = {}
    for kind, arg, lines in subs:
        if kind in ('loop', 'iter', 'loop-end'):
            n = int(arg.split()[0])
            if n < 1 or n > len(loops):
                raise LostAnchor(f'{name}: loop {n} not found ({len(loops)} loops)')
            loop_edits.setdefault(n, []).append((kind, arg, lines))
    for n in sorted(loop_edits, reverse=True):
        kw, bo, kwname = loops[n - 1]
        for kind, arg, lines in loop_edits[n]:
            if kind == 'loop-end':
                cb = match_close(blank(body), bo)
                pre = body[:cb].rstrip()
                body = pre + ('' if pre.endswith(';') else ';') + '\n' + '\n'.join(lines) + '\n' + body[cb:]
        for kind, arg, lines in loop_edits[n]:
            if kind == 'loop':
                ins = '\n' + '\n'.join(lines) + '\n'
                body = body[:bo] + ins + body[bo:]
        for kind, arg, lines in loop_edits[n]:
            if kind == 'iter':
                ghost = arg.split()[1]
                seg = body[kw:bo]
                bseg = blank(seg)
                mi = re.search(r'\bin\b', bseg)
                if kwname != 'for' or not mi:
                    raise LostAnchor(f'{name}: loop {n} is not a for loop')
                body = body[:kw] + seg[:mi.end()] + ' ' + ghost + ':' + seg[mi.end():] + body[bo:]
                log.append('R6 ghost iterator')
    for kind, arg, lines in subs:
        soft = kind.endswith('?')
        kind = kind.rstrip('?')
        if kind == 'after-all':
            pos = 0
            cnt = 0
            while True:
                idx = body.find(arg, pos)
                if idx < 0:
                    break
                le = body.find('\n', idx)
                le = len(body) if le < 0 else le
                ins = '\n' + '\n'.join(lines)
                body = body[:le] + ins + body[le:]
                pos = le + len(ins)
                cnt += 1
            if cnt == 0 and not soft:
                raise LostAnchor(f'{name}: hint anchor `{arg}` not found')
        if kind in ('after', 'before'):
            idx = body.find(arg)
            if idx < 0 and soft:
                log.append(f'soft hint anchor `{arg}` absent: hint skipped')
                continue
            if idx < 0:
                raise LostAnchor(f'{name}: hint anchor `{arg}` not found')
            if kind == 'after':
                le = body.find('\n', idx)
                le = len(body) if le < 0 else le
                body = body[:le] + '\n' + '\n'.join(lines) + body[le:]
            else:
                ls = body.rfind('\n', 0, idx) + 1
                body = body[:ls] + '\n'.join(lines) + '\n' + body[ls:]
    for kind, arg, lines in subs:
        if kind == 'ret':
            head = name_return(head, arg.strip(), log)
    for kind, arg, lines in subs:
        if kind == 'attr':
            head = arg + '\n' + head.lstrip('\n')
    spec = []
    for kind, arg, lines in subs:
        if kind == 'spec':
            spec += lines
    out = head.rstrip() + '\n' + '\n'.join(spec) + ('\n' if spec else '') + body
    return out, original


def process_item(src_obj, kind, name, opts, log, containers=()):
    s, e, ob, in_trait_impl = src_obj.locate(list(containers), kind, name)
    if in_trait_impl:
        opts = list(opts) + ['nopub']
    text = src_obj.src[s:e]
    original = text
    keep = {'Copy', 'Clone'}
    for o in opts:
        if o.startswith('derive='):
            keep = set(x.strip() for x in o[7:].split(',') if x.strip())
    text = strip_attrs_and_docs(text, keep)
    if kind == 'enum' and re.search(r'\{\s*\}\s*$', text):
        text = re.sub(r'\benum\b', 'struct', re.sub(r'\{\s*\}\s*$', ';', text), count=1)
        log.append('R3 empty enum -> unit struct')
    if 'nopub' not in opts:
        text = pub_item(text, kind)
        if kind == 'struct':
            text = pub_fields(text)
        log.append('R1 pub item')
    return text, original


def generate(template_path, repo):
    """returns dict(text=..., fns=[{name, file, gen_lines:(a,b)}], drops=[...], originals=[...])"""
    lines = open(template_path, encoding='utf-8').read().split('\n')
    out = []
    fns = []
    drops = []
    originals = []
    i = 0
    while i < len(lines):
        ln = lines[i]
        st = ln.strip()
        if st.startswith('//@ item '):
            parts = [p.strip() for p in st[len('//@ item '):].split('|')]
            rel = parts[0]
            opts = [p for p in parts[1:] if p == 'nopub' or re.match(r'^\w+=', p)]
            rest = [p for p in parts[1:] if p not in opts and p != '']
            kind, name = rest[-1].split()
            log = []
            text, orig = process_item(Source.get(repo, rel), kind, name, opts, log, rest[:-1])
            a = len(out) + 1
            out += text.split('\n')
            drops += [f'{rel}:{kind} {name}: {x}' for x in sorted(set(log))]
            originals.append((f'{rel}:{kind} {name}', orig, text))
            i += 1
        elif st.startswith('//@ fn '):
            parts = [p.strip() for p in st[len('//@ fn '):].split('|')]
            rel = parts[0]
            rest = parts[1:]
            opts = [p for p in rest if p in ('nopub',)]
            rest = [p for p in rest if p not in opts and p != '']
            name = rest[-1]
            containers = rest[:-1]
            subs = []
            i += 1
            cur = None
            while i < len(lines) and lines[i].strip() != '//@ end':
                s2 = lines[i].strip()
                if s2.startswith('//@'):
                    body = s2[3:].strip()
                    kw = body.split()[0]
                    arg = body[len(kw):].strip()
                    cur = (kw, arg, [])
                    subs.append(cur)
                else:
                    if cur is None:
                        raise SystemExit(f'{template_path}:{i + 1}: text before sub-directive')
                    cur[2].append(lines[i])
                i += 1
            i += 1  # skip //@ end
            log = []
            text, orig = process_fn(Source.get(repo, rel), containers, name, opts, subs, log)
            a = len(out) + 1
            out += text.split('\n')
            fns.append({'name': name, 'file': rel, 'containers': containers, 'gen_lines': [a, len(out)]})
            drops += [f'{rel}:{"::".join(containers + [name])}: {x}' for x in sorted(set(log))]
            originals.append((f'{rel}:{"::".join(containers + [name])}', orig, text))
        else:
            out.append(ln)
            i += 1
    return {'text': '\n'.join(out), 'fns': fns, 'drops': drops, 'originals': originals}


if __name__ == '__main__':
    tpl, repo = sys.argv[1], sys.argv[2] if len(sys.argv) > 2 else '/repo'
    try:
        g = generate(tpl, repo)
    except LostAnchor as ex:
        print('LOST-ANCHOR:', ex, file=sys.stderr)
        sys.exit(2)
    sys.stdout.write(g['text'])
