#!/bin/bash
# developer helper: confirm sub-agent changes under /tmp/agents/<id> (demo passes pristine / fails patched / suite unchanged), then store under seeded/<id>
for id in "$@"; do
  src=/tmp/agents/$id
  [ -f $src/patch.diff ] && [ -f $src/demo.rs ] && [ -f $src/meta.json ] || { echo "$id INCOMPLETE"; continue; }
  wt=/tmp/wt/confirm_$id
  git -C /repo worktree remove --force $wt 2>/dev/null
  git -C /repo worktree add -q --detach $wt HEAD || { echo "$id worktree failed"; continue; }
  cd $wt
  cp $src/demo.rs tests/demo.rs
  p0=$(cargo test --offline --test demo 2>&1 | grep -E "^test result" | head -1)
  if ! git apply $src/patch.diff; then echo "$id PATCH-DOES-NOT-APPLY"; cd /; git -C /repo worktree remove --force $wt; continue; fi
  p1=$(cargo test --offline --test demo 2>&1 | grep -E "^test result|^error" | head -1)
  rm tests/demo.rs
  out=$(cargo test --workspace --no-fail-fast --offline 2>&1)
  passed=$(echo "$out" | grep -cE '^test .* \.\.\. ok$'); failed=$(echo "$out" | grep -cE '^test .* \.\.\. FAILED$')
  cd /; git -C /repo worktree remove --force $wt
  echo "$id pristine=[$p0] patched=[$p1] suite passed=$passed failed=$failed"
  if [[ "$p0" == *"ok."* ]] && [[ "$p1" == *FAILED* || "$p1" == error* ]] && [ "$passed" -ge 699 ] && [ "$failed" -eq 10 ]; then
    python3 /verif/tools/store_seeded.py $src $id "scratch worktree $wt at /repo HEAD $(git -C /repo rev-parse --short HEAD): demo on pristine: $p0; demo with patch.diff: $p1; cargo test --workspace --no-fail-fast --offline with the patch: $passed passed / $failed failed (the 10 pre-existing failures)" && echo "$id STORED"
  else echo "$id NOT-CONFIRMED"; fi
done
