#!/usr/bin/env python3
"""setup: warm the Kani dependency cache (one build of the scratch copy) and Verus. Offline; writes only under /verif/.cache and /verif/gen."""
import os, sys, subprocess
sys.path.insert(0, os.path.dirname(os.path.abspath(__file__)))
import vlib
os.makedirs(vlib.CACHE, exist_ok=True)
os.makedirs(vlib.GEN, exist_ok=True)
sc = vlib.Scratch('setup')
try:
    sc.prepare()
    cmd = ['cargo', 'kani', '--target-dir', sc.target, '--only-codegen']
    p = subprocess.run(cmd, cwd=sc.dir, env=vlib.kani_env(), capture_output=True, text=True)
    print('kani codegen exit', p.returncode)
    if p.returncode != 0:
        print(p.stderr[-2000:])
finally:
    sc.close()
open(os.path.join(vlib.GEN, 'warm.rs'), 'w').write('use vstd::prelude::*;\nverus!{ proof fn t() ensures 1 + 1 == 2int {} }\nfn main(){}\n')
p = subprocess.run(['verus', os.path.join(vlib.GEN, 'warm.rs')], capture_output=True, text=True)
print('verus warm exit', p.returncode, p.stdout.strip()[-80:])
sys.exit(0 if p.returncode == 0 else 1)
