#!/usr/bin/env python3
"""developer helper: merge seeded_par logs (later files win) into a detection table: id | result | units that alarm"""
import re, sys, json, os
res = {}
for f in sys.argv[1:]:
    for ln in open(f):
        m = re.match(r'(C\d\d-m\d) units=\[(.*?)\] rc=(\d) (\d+)s (.*?)\s*undecided=(\d+)', ln)
        if not m:
            continue
        id, units, rc, secs, vio, und = m.groups()
        us = sorted(set(re.findall(r'C\d\d-([A-Za-z0-9_]+?)-[0-9a-f]{10}\.rs', vio)))
        noinput = 'no-failing-input-found' in vio
        prev = res.get(id)
        if units != 'ALL' and prev and prev['rc'] == '1' and rc == '1':
            us = sorted(set(us) | set(prev['units']))
        res[id] = {'rc': rc, 'units': us, 'und': und}
for id in sorted(res):
    r = res[id]
    summ = json.load(open(f'/verif/seeded/{id}/meta.json'))['summary'][:110].replace('\n', ' ')
    print(f"| {id} | {'caught' if r['rc']=='1' else ('undecided' if r['rc']=='2' else 'missed')} | {', '.join(r['units']) or '-'} | {summ} |")
