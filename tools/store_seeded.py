#!/usr/bin/env python3
import json, sys, shutil, os
for m in sys.argv[1:]:
    prop, k = m.split('/')
    id = f'{prop}-{k}'
    d = f'/verif/seeded/{id}'
    os.makedirs(d, exist_ok=True)
    for f in ('patch.diff', 'demo.rs'):
        shutil.copy(f'/tmp/seeded_out/{m}/{f}', d)
    meta = json.load(open(f'/tmp/seeded_out/{m}/meta.json'))
    meta['confirmed_by_me'] = ['scratch worktree /tmp/wt/confirm at /repo HEAD: `cargo test --offline --test demo` passes on pristine, fails with patch.diff applied; `cargo test --workspace --no-fail-fast --offline` with the patch: 699 passed / the same 10 pre-existing failures']
    meta['source'] = 'independent sub-agent given only the property text and its own worktree'
    json.dump(meta, open(f'{d}/meta.json', 'w'), indent=1)
    print('stored', id)
