#!/usr/bin/env python3
"""store_seeded.py <src dir> <id> <what was run to confirm>  - copy a confirmed sub-agent change into seeded/<id>/"""
import json, sys, shutil, os
src, id, ran = sys.argv[1:4]
d = f'/verif/seeded/{id}'
os.makedirs(d, exist_ok=True)
for f in ('patch.diff', 'demo.rs'):
    shutil.copy(os.path.join(src, f), d)
meta = json.load(open(os.path.join(src, 'meta.json')))
meta['confirmed_by_me'] = [ran]
meta['source'] = 'independent sub-agent given only the property text and its own worktree'
json.dump(meta, open(f'{d}/meta.json', 'w'), indent=1)
print('stored', id)
