#!/usr/bin/env python3
"""Developer tool (not a registered check): apply seeded property-breaking and harmless edits to a scratch copy of /repo
and record which units alarm / stay quiet / go undecided.

  selftest.py [--only name-substring] [--engine verus|kani|all]

Mutants live in contracts/selftest_mutants.json:
  {"name":..., "file":..., "old":..., "new":..., "units":[...], "expect":"alarm"|"quiet", "prop": "C14"}
"""
import os, sys, json, shutil, subprocess, argparse, tempfile

HERE = os.path.dirname(os.path.abspath(__file__))
VERIF = os.path.dirname(HERE)


def main():
    ap = argparse.ArgumentParser()
    ap.add_argument('--only')
    ap.add_argument('--engine', default='verus')
    a = ap.parse_args()
    muts = json.load(open(os.path.join(VERIF, 'contracts', 'selftest_mutants.json')))
    scratch = tempfile.mkdtemp(prefix='allsorts-selftest-', dir='/tmp')
    results = []
    try:
        subprocess.run(['rsync', '-a', '--exclude', 'target', '--exclude', '.git', '/repo/', scratch + '/'], check=True)
        for m in muts:
            if a.only and a.only not in m['name']:
                continue
            path = os.path.join(scratch, m['file'])
            orig = open(path, encoding='utf-8').read()
            if m['old'] not in orig:
                results.append((m['name'], 'STALE (old text not found)', ''))
                continue
            open(path, 'w', encoding='utf-8').write(orig.replace(m['old'], m['new'], 1))
            try:
                env = dict(os.environ, VERIF_REPO=scratch, VERIF_OUT=os.path.join(scratch, '_out'), VERIF_GEN=os.path.join(scratch, '_gen'))
                cmd = ['python3', os.path.join(HERE, 'check.py'), m['prop']]
                for u in m['units']:
                    cmd += ['--unit', u]
                p = subprocess.run(cmd, env=env, capture_output=True, text=True)
                got = {0: 'quiet', 1: 'alarm', 2: 'undecided'}.get(p.returncode, str(p.returncode))
                ok = 'OK ' if got == m['expect'] else 'MISMATCH'
                first = [l for l in p.stdout.split('\n') if l.startswith(('VIOLATION', 'UNDECIDED'))][:2]
                results.append((m['name'], f"{ok} expect={m['expect']} got={got}", ' | '.join(first)[:300]))
            finally:
                open(path, 'w', encoding='utf-8').write(orig)
    finally:
        shutil.rmtree(scratch, ignore_errors=True)
    for r in results:
        print(*r)
    # evidence of selftest runs is restored by re-running the real check afterwards
    sys.exit(0 if all('MISMATCH' not in r[1] and 'STALE' not in r[1] for r in results) else 1)


if __name__ == '__main__':
    main()
