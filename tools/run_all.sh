#!/bin/bash
# developer helper: run every registered quick check sequentially, print one line per property
cd /verif
for p in $(python3 -c "import json;print(' '.join(c['property_id'] for c in json.load(open('MANIFEST.json'))['checks']))"); do
  s=$(date +%s); python3 tools/check.py $p --tier ${1:-quick} > /tmp/check_$p.out 2>&1; rc=$?; e=$(date +%s)
  echo "$p rc=$rc $((e-s))s $(grep -c '^VIOLATION' /tmp/check_$p.out) violations $(grep -c '^UNDECIDED' /tmp/check_$p.out) undecided"
done
