#!/bin/bash
# developer helper: run the quick check of the owning property against stored seeded changes, each in its own scratch
# worktree of /repo (never /repo itself), N slots in parallel (separate Kani target dir + lock per slot).
# usage: seeded_par.sh <slots> <id>[:unit1,unit2] ...      results: /tmp/seeded_par/<id>.out, one summary line each
slots=$1; shift
mkdir -p /tmp/seeded_par /tmp/wt
run_one() {
  spec=$1; slot=$2
  id=${spec%%:*}; units=""; [[ "$spec" == *:* ]] && units=${spec#*:}
  d=/verif/seeded/$id; prop=${id%%-*}
  wt=/tmp/wt/sp_$id
  git -C /repo worktree remove --force $wt 2>/dev/null
  git -C /repo worktree add -q --detach $wt HEAD || { echo "$id WORKTREE-FAILED"; return; }
  if ! git -C $wt apply $d/patch.diff 2>/dev/null; then echo "$id PATCH-DOES-NOT-APPLY"; git -C /repo worktree remove --force $wt; return; fi
  args=""; for u in ${units//,/ }; do args="$args --unit $u"; done
  s=$(date +%s)
  VERIF_REPO=$wt VERIF_CACHE=/tmp/seeded_par/cache$slot VERIF_SCRATCH=/tmp/seeded_par/scratch$slot VERIF_GEN=/tmp/seeded_par/gen_$id \
    VERIF_OUT=/tmp/seeded_par/out_$id VERIF_JOBS=${VERIF_JOBS:-5} python3 /verif/tools/check.py $prop --tier ${TIER:-quick} $args > /tmp/seeded_par/$id.out 2>&1; rc=$?
  e=$(date +%s)
  git -C /repo worktree remove --force $wt
  echo "$id units=[${units:-ALL}] rc=$rc $((e-s))s $(grep '^VIOLATION' /tmp/seeded_par/$id.out | sed 's/.*replays.//' | cut -c1-60 | tr '\n' ' ') undecided=$(grep -c '^UNDECIDED' /tmp/seeded_par/$id.out)"
}
specs=("$@")
for ((k=0;k<slots;k++)); do
  ( for ((j=k;j<${#specs[@]};j+=slots)); do run_one "${specs[$j]}" $k; done ) &
done
wait
