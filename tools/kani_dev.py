#!/usr/bin/env python3
"""developer helper: run one harness of one Kani unit in regular output mode and print the non-SUCCESS checks"""
import sys, os, re, subprocess
sys.path.insert(0, os.path.dirname(os.path.abspath(__file__)))
import vlib
unit, harness = sys.argv[1], sys.argv[2]
extra = sys.argv[3:]
u = vlib.parse_kani_unit(os.path.join(vlib.VERIF, 'contracts/kani', unit + '.rs'))
h = [x for x in u['harnesses'] if x['name'] == harness][0]
sc = vlib.Scratch('dev')
try:
    sc.prepare()
    deps = [vlib.parse_kani_unit(os.path.join(vlib.VERIF, 'contracts/kani', d + '.rs')) for d in os.environ.get('KUNITS', '').split(',') if d]
    vlib.inject(sc.dir, [u] + deps)
    cmd = ['cargo', 'kani', '--target-dir', sc.target, '-Z', 'function-contracts', '-Z', 'stubbing', '--exact', '--harness', vlib.harness_path(u, h)] + extra
    rc, out, err, to = vlib.run_group(['bash', '-c', 'ulimit -v 16000000; exec ' + ' '.join(vlib.shell_quote(c) for c in cmd)], int(os.environ.get('KTO', '900')), cwd=sc.dir, env=vlib.kani_env())
    if to: print('TIMEOUT')
    open('/tmp/kani_dev.log', 'w').write(out + err)
    for m in re.finditer(r'Check \d+: (.*)\n\t - Status: (\w+)\n\t - Description: (.*)\n\t - Location: (.*)', out):
        if m.group(2) not in ('SUCCESS',):
            print(m.group(2), m.group(3), m.group(4))
    print('\n'.join(out.strip().split('\n')[-12:]))
    if 'error: could not compile' in err:
        print(err[-3000:])
finally:
    sc.close()
