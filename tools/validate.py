#!/usr/bin/env python3
# run with python3-vt (jsonschema lives in the tooling venv)
import json, jsonschema, glob, sys
jsonschema.validate(json.load(open('/verif/MANIFEST.json')), json.load(open('/root/.vp/MANIFEST.schema.json')))
print('manifest ok')
s = json.load(open('/root/.vp/EVIDENCE.schema.json'))
for p in sorted(glob.glob('/verif/evidence/*.json')):
    jsonschema.validate(json.load(open(p)), s)
    e = json.load(open(p)); c = e['coverage']
    print(p, 'ok', e['level'], c.get('obligations'), c.get('discharged'), 'bounded', len(c['bounded_units']), 'wall', e['wall_s'])
