#!/bin/bash
# Runs the repository's own suite (guard off) and compares with the pinned baseline: 688 passing tests,
# and exactly the 10 always-failing tests (fixtures emptied in this checkout).
cd /repo || exit 2
out=$(cargo test --workspace --no-fail-fast --offline 2>&1)
passed=$(echo "$out" | grep -cE '^test .* \.\.\. ok$')
failed=$(echo "$out" | grep -E '^test .* \.\.\. FAILED$' | sort)
nfailed=$(echo "$failed" | grep -c . )
echo "passed=$passed failed=$nfailed"
echo "$failed"
expected="test bitmap::cbdt::tests::test_lookup_cblc ... FAILED
test font::tests::test_glyph_names ... FAILED
test tables::cmap::tests::test_mappings_format0 ... FAILED
test tables::cmap::tests::test_mappings_format12 ... FAILED
test tables::cmap::tests::test_mappings_format4 ... FAILED
test tables::svg::tests::test_read_svg ... FAILED
test test_shape_emoji_flag ... FAILED
test test_shape_emoji_hair_component ... FAILED
test test_shape_emoji_sequence ... FAILED
test test_shape_emoji_zwj_sequence ... FAILED"
[ "$passed" -ge 699 ] && [ "$failed" == "$expected" ] && echo BASELINE-OK
