#!/bin/bash
# developer helper: mut.sh <prop> <unit[,unit]> <file> <python-regex> <replacement>   - one-off mutant in a scratch worktree (never /repo)
prop=$1; units=$2; file=$3; pat=$4; rep=$5
wt=/tmp/wt/mut_$$
git -C /repo worktree add -q --detach $wt HEAD || exit 2
python3 - "$wt/$file" "$pat" "$rep" <<'P' || { git -C /repo worktree remove --force $wt; exit 2; }
import re,sys
p,pat,rep=sys.argv[1:4]; s=open(p).read(); t,n=re.subn(pat,rep,s,count=1,flags=re.S)
if n==0: print('PATTERN NOT FOUND'); sys.exit(1)
open(p,'w').write(t)
P
git -C $wt diff | head -30
args=""; for u in ${units//,/ }; do args="$args --unit $u"; done
VERIF_REPO=$wt VERIF_GEN=/tmp/mut_gen_$$ VERIF_OUT=/tmp/mut_out_$$ VERIF_CACHE=${VERIF_CACHE:-/tmp/mut_cache} VERIF_SCRATCH=/tmp/mut_scratch python3 /verif/tools/check.py $prop $args | cut -c1-300; echo "rc=${PIPESTATUS[0]}"
git -C /repo worktree remove --force $wt; rm -rf /tmp/mut_gen_$$ /tmp/mut_out_$$
