#!/bin/bash
# developer helper: regenerate evidence/<id>.json for every registered property from /verif against /repo, N properties in parallel
# (each slot has its own Kani target dir / lock / gen dir; the checks themselves are the registered quick commands).
slots=${1:-3}; shift
cd /verif
props=("$@"); if [ ${#props[@]} -eq 0 ]; then props=($(python3 -c "import json;print(' '.join(c['property_id'] for c in json.load(open('MANIFEST.json'))['checks']))")); fi
mkdir -p /tmp/regen
for ((k=0;k<slots;k++)); do
  ( for ((j=k;j<${#props[@]};j+=slots)); do p=${props[$j]}; s=$(date +%s)
      VERIF_CACHE=/tmp/regen/cache$k VERIF_SCRATCH=/tmp/regen/scratch$k VERIF_GEN=/tmp/regen/gen_$p VERIF_JOBS=${VERIF_JOBS:-5} VERIF_SEED=1 python3 tools/check.py $p --tier quick > /tmp/regen/$p.out 2>&1; rc=$?
      echo "$p rc=$rc $(( $(date +%s) - s ))s violations=$(grep -c '^VIOLATION' /tmp/regen/$p.out) undecided=$(grep -c '^UNDECIDED' /tmp/regen/$p.out) known=$(grep -c '^KNOWN-FINDING' /tmp/regen/$p.out)"
    done ) &
done
wait
