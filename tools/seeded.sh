#!/bin/bash
# seeded.sh confirm <src dir with patch.diff demo.rs meta.json> : confirm the four facts in a scratch worktree (outside /repo, /verif)
# seeded.sh run <seeded id dir under /verif/seeded> <property> [units...] : apply to /repo, run check, revert
set -u
cmd=$1; shift
case $cmd in
confirm)
  src=$1
  wt=/tmp/wt/confirm
  if [ ! -d $wt ]; then git -C /repo worktree add -q --detach $wt HEAD || exit 2; fi
  cd $wt && git checkout -q --detach $(git -C /repo rev-parse HEAD) && git checkout -q -- . && rm -f tests/demo.rs
  cp $src/demo.rs tests/demo.rs
  echo "== demo on pristine"; cargo test --offline --test demo 2>&1 | grep -E "^test result|error(\[|:)" | head -3
  git apply $src/patch.diff || { echo "PATCH DOES NOT APPLY"; exit 2; }
  echo "== demo with patch"; cargo test --offline --test demo 2>&1 | grep -E "^test result|error(\[|:)" | head -3
  rm tests/demo.rs
  echo "== suite with patch"; out=$(cargo test --workspace --no-fail-fast --offline 2>&1); echo "passed=$(echo "$out" | grep -cE '^test .* \.\.\. ok$') failed=$(echo "$out" | grep -cE '^test .* \.\.\. FAILED$')"
  git checkout -q -- .
  ;;
run)
  dir=$(readlink -f $1); prop=$2; shift 2
  git -C /repo apply $dir/patch.diff || { echo "PATCH DOES NOT APPLY"; exit 2; }
  args=""; for u in "$@"; do args="$args --unit $u"; done
  VERIF_OUT=/tmp/seeded_run_out python3 /verif/tools/check.py $prop $args | cut -c1-400; rc=${PIPESTATUS[0]}
  git -C /repo checkout -- .
  echo "rc=$rc"
  ;;
esac
