#!/usr/bin/env python3
"""Runners for the two engines (DESIGN.md §2): Verus on sliced functions, Kani on a scratch copy
of the real crate with injected contracts / harness modules."""
import os, re, sys, json, time, shutil, subprocess, hashlib, fcntl, difflib, glob

VERIF = os.path.dirname(os.path.dirname(os.path.abspath(__file__)))
REPO = os.environ.get('VERIF_REPO', '/repo')
GEN = os.environ.get('VERIF_GEN', os.path.join(VERIF, 'gen'))
CACHE = os.environ.get('VERIF_CACHE', os.path.join(VERIF, '.cache'))
SCRATCH_ROOT = os.environ.get('VERIF_SCRATCH', '/tmp/allsorts-verif-scratch')

sys.path.insert(0, os.path.dirname(os.path.abspath(__file__)))
import extract  # noqa


# --------------------------------------------------------------------------
# unit metadata (header directives shared by both engines)

META_KEYS = ('unit', 'props', 'strength', 'assume', 'unverified', 'min-verified', 'module', 'note', 'twin', 'rlimit')


def read_meta(path):
    meta = {'assume': [], 'unverified': [], 'note': [], 'props': [], 'path': path}
    for ln in open(path, encoding='utf-8'):
        s = ln.strip()
        if not s.startswith('//@ '):
            continue
        body = s[4:]
        kw = body.split()[0]
        arg = body[len(kw):].strip()
        if kw in ('assume', 'unverified', 'note'):
            meta[kw].append(arg)
        elif kw == 'props':
            meta['props'] = arg.split()
        elif kw in META_KEYS:
            meta[kw] = arg
    meta.setdefault('unit', os.path.splitext(os.path.basename(path))[0])
    return meta


def all_units():
    v = [read_meta(p) | {'engine': 'verus'} for p in sorted(glob.glob(os.path.join(VERIF, 'contracts/verus/*.rs')))]
    k = [read_meta(p) | {'engine': 'kani'} for p in sorted(glob.glob(os.path.join(VERIF, 'contracts/kani/*.rs')))]
    return v + k


# --------------------------------------------------------------------------
# Verus engine

VERUS_KINDS = [
    ('postcondition not satisfied', 'postcondition'),
    ('precondition not satisfied', 'precondition'),
    ('precondition not met', 'precondition'),   # wording used for vstd-specified callees, e.g. 'index in bounds for this access'
    ('possible arithmetic underflow/overflow', 'overflow'),
    ('possible division by zero', 'divzero'),
    ('invariant not satisfied at end of loop body', 'invariant-preserved'),
    ('invariant not satisfied before loop', 'invariant-init'),
    ('loop invariant not satisfied', 'invariant'),
    ('assertion failed', 'assert'),
    ('decreases not satisfied', 'decreases'),
    ('could not prove termination', 'decreases'),
    ('unreachable', 'unreachable'),
    ('possible bit shift underflow/overflow', 'overflow'),
    ('cannot show invariant', 'invariant'),
    ('recommendation not met', 'recommends'),
]
CONTRACT_KINDS = {'postcondition', 'precondition', 'overflow', 'divzero', 'decreases', 'unreachable',
                  'invariant-preserved', 'invariant-init', 'invariant'}


def scan_assumptions(text):
    found = []
    for pat in ('assume(', 'admit(', 'external_body', 'assume_specification', 'external_fn_specification',
                'external_type_specification', 'uninterp spec fn', '#[verifier::external'):
        n = text.count(pat)
        if n:
            found.append(f'{pat} x{n}')
    return found


def count_clauses(text):
    """rough count of explicit contract clauses in the generated file (information only)"""
    n = 0
    for kw in ('requires', 'ensures', 'invariant', 'decreases'):
        n += len(re.findall(r'(?m)^\s*' + kw + r'\b', text))
    return n


def run_verus_unit(meta, repo=REPO, timeout=600, rlimit=None):
    unit = meta['unit']
    t0 = time.time()
    res = {'unit': unit, 'engine': 'verus', 'status': 'ok', 'functions': [], 'errors': [], 'undecided': [],
           'drops': [], 'assumptions_scan': [], 'verified': 0, 'smt_ms': 0, 'strength': meta.get('strength', 'proved-unbounded')}
    os.makedirs(GEN, exist_ok=True)
    try:
        extract.Source.cache.clear()
        g = extract.generate(meta['path'], repo)
    except extract.LostAnchor as ex:
        res['status'] = 'undecided'
        res['undecided'].append(f'lost anchor: {ex}')
        res['wall_s'] = time.time() - t0
        return res
    gen_path = os.path.join(GEN, unit + '.rs')
    open(gen_path, 'w', encoding='utf-8').write(g['text'])
    # diff sliced text vs generated text (kept next to the generated file)
    with open(os.path.join(GEN, unit + '.slices.diff'), 'w', encoding='utf-8') as f:
        for label, orig, new in g['originals']:
            f.write(''.join(difflib.unified_diff(orig.splitlines(True), new.splitlines(True), 'repo:' + label, 'gen:' + label)))
            f.write('\n')
    res['drops'] = sorted(set(re.sub(r'^[^ ]+: ', '', d) for d in g['drops']))
    res['drops_detail'] = len(g['drops'])
    res['assumptions_scan'] = scan_assumptions(g['text'])
    res['clauses'] = count_clauses(g['text'])
    cmd = ['verus', gen_path, '--output-json', '--time', '--multiple-errors', '8', '--triggers-mode', 'silent']
    rlimit = rlimit or meta.get('rlimit')
    if rlimit:
        cmd += ['--rlimit', str(rlimit)]
    try:
        p = subprocess.run(cmd, capture_output=True, text=True, timeout=timeout, cwd=GEN)
    except subprocess.TimeoutExpired:
        res['status'] = 'undecided'
        res['undecided'].append('verus timeout')
        res['wall_s'] = time.time() - t0
        return res
    res['cmd'] = ' '.join(cmd)
    open(os.path.join(GEN, unit + '.err'), 'w').write(p.stderr)
    try:
        j = json.loads(p.stdout)
    except Exception:
        j = {}
    vr = j.get('verification-results', {})
    res['verified'] = vr.get('verified', 0)
    res['n_errors'] = vr.get('errors', 0)
    try:
        for mod in j['times-ms']['smt']['smt-run-module-times']:
            for fb in mod.get('function-breakdown', []):
                res['functions'].append({'function': fb['function'].split('::', 1)[-1], 'mode': fb.get('mode:', ''),
                                         'ms': fb['time'], 'rlimit': fb.get('rlimit'), 'success': fb['success']})
        res['smt_ms'] = j['times-ms']['smt']['total']
    except Exception:
        pass
    # parse error blocks from stderr
    line_fn = {}
    for f in g['fns']:
        for ln in range(f['gen_lines'][0], f['gen_lines'][1] + 1):
            line_fn[ln] = '::'.join([c for c in f['containers']] + [f['name']])
    gen_lines = g['text'].split('\n')

    def enclosing_fn(ln):
        if ln in line_fn:
            return line_fn[ln], True
        # template function (witness_, lemma, spec)
        for k in range(ln - 1, -1, -1):
            m = re.match(r'\s*(?:pub\s+)?(?:open\s+|closed\s+)?(?:proof\s+|spec\s+|exec\s+)?fn\s+(\w+)', gen_lines[k] if k < len(gen_lines) else '')
            if m:
                return m.group(1), False
        return '?', False

    blocks = re.split(r'(?m)^(?=error|warning|note: )', p.stderr)
    for blk in blocks:
        if not blk.startswith('error'):
            continue
        first = blk.split('\n', 1)[0]
        if first.startswith('error: aborting due to'):
            continue
        msg = first[len('error'):].lstrip(':').strip() if not first.startswith('error[') else first
        kind = None
        for pat, k in VERUS_KINDS:
            if pat in first:
                kind = k
                break
        locs = [int(m.group(1)) for m in re.finditer(re.escape(unit) + r'\.rs:(\d+):\d+', blk)]
        fn, sliced = ('?', False)
        for ln in locs:
            fn, sliced = enclosing_fn(ln)
            if sliced:
                break
        if locs and not sliced:
            fn, sliced = enclosing_fn(locs[0])
        src_lines = ' | '.join(norm for norm in (re.sub(r'\s+', ' ', gen_lines[ln - 1]).strip() for ln in locs[:3] if 0 < ln <= len(gen_lines)))
        if kind is None:
            if 'rlimit' in blk or 'Resource limit' in blk:
                res['undecided'].append(f'rlimit exceeded in {fn}')
            else:
                res['undecided'].append('verus/rustc error: ' + first[:200])
            continue
        res['errors'].append({'kind': kind, 'fn': fn, 'sliced': sliced, 'lines': locs[:4], 'text': src_lines, 'raw': blk[:1500]})
    if p.returncode != 0 and not res['errors'] and not res['undecided']:
        res['undecided'].append('verus exited %d without a classified error' % p.returncode)
    if 'min-verified' in meta and res['verified'] < int(meta['min-verified']) and not res['errors'] and not res['undecided']:
        res['undecided'].append(f"vacuity guard: verified {res['verified']} < recorded minimum {meta['min-verified']}")
    if res['errors']:
        res['status'] = 'fail'
    elif res['undecided']:
        res['status'] = 'undecided'
    res['wall_s'] = time.time() - t0
    res['fns_under_contract'] = [{'path': f["file"] + ':' + '::'.join(f['containers'] + [f['name']]), 'engine': 'verus', 'strength': res['strength']} for f in g['fns']]
    return res



def run_group(cmd, timeout, **kw):
    """subprocess.run with a new process group that is killed as a whole on timeout (cbmc children do not survive)"""
    import signal
    p = subprocess.Popen(cmd, stdout=subprocess.PIPE, stderr=subprocess.PIPE, text=True, start_new_session=True, **kw)
    try:
        out, err = p.communicate(timeout=timeout)
        return p.returncode, out, err, False
    except subprocess.TimeoutExpired:
        try:
            os.killpg(p.pid, signal.SIGKILL)
        except ProcessLookupError:
            pass
        out, err = p.communicate()
        return -9, out, err, True

# --------------------------------------------------------------------------
# Kani engine

def parse_kani_unit(path):
    """returns meta + injections"""
    meta = read_meta(path)
    lines = open(path, encoding='utf-8').read().split('\n')
    body = []
    above = []      # (file, containers, kind, name, [attr lines])
    harnesses = []  # dict(name, kind, tier, fns, timeout, ignore)
    i = 0
    while i < len(lines):
        s = lines[i].strip()
        if s.startswith('//@ above '):
            parts = [p.strip() for p in s[len('//@ above '):].split('|')]
            rel = parts[0]
            kind, name = parts[-1].split()
            containers = parts[1:-1]
            attrs = []
            i += 1
            while lines[i].strip() != '//@ end':
                attrs.append(lines[i]); i += 1
            above.append((rel, containers, kind, name, attrs))
        elif s.startswith('//@ harness '):
            toks = s[len('//@ harness '):].split()
            h = {'name': toks[0], 'kind': 'complete', 'tier': 'quick', 'fns': [], 'timeout': 300, 'ignore': None, 'props': None}
            for t in toks[1:]:
                k, _, v = t.partition('=')
                if k == 'fns':
                    h['fns'] = v.split(',')
                elif k == 'timeout':
                    h['timeout'] = int(v)
                elif k == 'props':
                    h['props'] = v.split(',')
                else:
                    h[k] = v
            harnesses.append(h)
        elif s.startswith('//@'):
            pass
        else:
            body.append(lines[i])
        i += 1
    meta['body'] = '\n'.join(body)
    meta['above'] = above
    meta['harnesses'] = harnesses
    return meta


# Kani's informational NaN checks (a NaN result is not a Rust panic; CBMC's --nan-check is an assertion without an assumption).
# NOT ignored any more: Kani's "attempt to compute simd_* which would overflow" on float lanes. That check is spurious, but Kani
# ASSUMES it afterwards, which silently prunes every path through the SIMD operation (measured: C16_cont missed a seeded change
# that way). Harnesses that reach pathfinder's Vector2F arithmetic stub the SSE intrinsics lane-wise instead (see C16_cont).
IGNORE_DEFAULT = re.compile(r'NaN on (addition|subtraction|multiplication|division)')
SIMD_PSEUDO = re.compile(r'attempt to compute simd_(add|sub|mul|div)')


class Scratch:
    def __init__(self, tag):
        os.makedirs(CACHE, exist_ok=True)
        os.makedirs(SCRATCH_ROOT, exist_ok=True)
        self.lockf = open(os.path.join(CACHE, 'kani.lock'), 'w')
        fcntl.flock(self.lockf, fcntl.LOCK_EX)
        self.dir = os.path.join(SCRATCH_ROOT, 'repo')
        self.target = os.path.join(CACHE, 'kani-target')

    def prepare(self, repo=REPO):
        if os.path.exists(self.dir):
            shutil.rmtree(self.dir)
        os.makedirs(self.dir)
        subprocess.run(['rsync', '-a', '--exclude', 'target', '--exclude', '.git', '--exclude', 'tests', '--exclude', 'criterion',
                        repo.rstrip('/') + '/', self.dir + '/'], check=True)
        os.makedirs(os.path.join(self.dir, '.cargo'), exist_ok=True)
        open(os.path.join(self.dir, '.cargo', 'config.toml'), 'w').write('[net]\noffline = true\n')
        if not os.path.exists(os.path.join(self.dir, 'tests')):
            os.symlink(os.path.join(repo, 'tests'), os.path.join(self.dir, 'tests'))

    def close(self):
        try:
            shutil.rmtree(self.dir, ignore_errors=True)
        finally:
            fcntl.flock(self.lockf, fcntl.LOCK_UN)
            self.lockf.close()


def inject(scratch_dir, units):
    """insert attribute lines above items, append harness modules. raises LostAnchor."""
    per_file_above = {}
    for u in units:
        for rel, containers, kind, name, attrs in u['above']:
            per_file_above.setdefault(rel, []).append((containers, kind, name, attrs))
    for rel, lst in per_file_above.items():
        path = os.path.join(scratch_dir, rel)
        extract.Source.cache.clear()
        so = extract.Source(scratch_dir, rel)
        edits = []
        for containers, kind, name, attrs in lst:
            s, e, ob, _ = so.locate(containers, kind, name)
            # insert before the item keyword line (after doc comments/attrs is fine: attributes stack)
            m = re.search(r'(?m)^[ \t]*(?:pub(?:\([^)]*\))?\s+)?(?:const\s+)?(?:unsafe\s+)?' + kind + r'\s+' + re.escape(name) + r'\b', so.src[s:e])
            pos = s + (m.start() if m else 0)
            edits.append((pos, '\n'.join(attrs) + '\n'))
        src = so.src
        for pos, text in sorted(edits, reverse=True):
            src = src[:pos] + text + src[pos:]
        open(path, 'w', encoding='utf-8').write(src)
    for u in units:
        rel = u['module']
        path = os.path.join(scratch_dir, rel)
        if not os.path.exists(path):
            raise extract.LostAnchor(f'module file {rel} missing')
        with open(path, 'a', encoding='utf-8') as f:
            f.write(f"\n#[cfg(kani)]\n#[allow(unused, non_snake_case)]\npub(crate) mod verif_{u['unit']} {{\n    use super::*;\n{u['body']}\n}}\n")
    # crate-level feature gates are not needed (no loop contracts)


def kani_env():
    env = dict(os.environ)
    env['CARGO_NET_OFFLINE'] = 'true'
    env.pop('RUSTUP_TOOLCHAIN', None)
    return env


def run_kani(units, tier, jobs=8, repo=REPO, mem_kb=12_000_000, keep=False, only=None):
    """units: parsed kani units. returns list of per-harness results + build status"""
    t0 = time.time()
    out = {'engine': 'kani', 'harnesses': [], 'undecided': [], 'build_s': 0, 'wall_s': 0}
    selected = []
    for u in units:
        for h in u['harnesses']:
            if only and h['name'] not in only:
                continue
            if h['tier'] == 'thorough' and tier != 'thorough':
                continue
            if h['tier'] == 'off':
                continue
            selected.append((u, h))
    if not selected:
        return out
    sc = Scratch('k')
    try:
        sc.prepare(repo)
        try:
            inject(sc.dir, units)
        except extract.LostAnchor as ex:
            out['undecided'].append(f'lost anchor: {ex}')
            return out
        maxto = max(h['timeout'] for _, h in selected)
        cmd = ['cargo', 'kani', '--target-dir', sc.target, '-Z', 'function-contracts', '-Z', 'stubbing', '-Z', 'unstable-options',
               '--output-format=terse', '-j', str(jobs), '--harness-timeout', f'{maxto}s', '--exact']
        for u, h in selected:
            cmd += ['--harness', harness_path(u, h)]
        out['cmd'] = ' '.join(cmd)
        shell = f'ulimit -v {mem_kb}; exec ' + ' '.join(shell_quote(c) for c in cmd)
        rc, so, se, to = run_group(['bash', '-c', shell], maxto * max(1, (len(selected) + jobs - 1) // jobs) + 900, cwd=sc.dir, env=kani_env())
        text = so + '\n' + se
        if to:
            out['undecided'].append('cargo kani overall timeout')
        os.makedirs(GEN, exist_ok=True)
        open(os.path.join(GEN, 'kani-last.log'), 'w').write(text)
        m = re.search(r'Finished `dev` profile.*? in ([\d.]+)s', text)
        if m:
            out['build_s'] = float(m.group(1))
        if 'error: could not compile' in text or re.search(r'(?m)^error(\[E\d+\])?:', text) and 'Checking harness' not in text:
            errs = re.findall(r'(?m)^error.*$', text)[:5]
            out['undecided'].append('build failure of the scratch copy: ' + ' ; '.join(errs))
            return out
        parsed = parse_kani_output(text)
        for u, h in selected:
            hp = harness_path(u, h)
            r = parsed.get(hp)
            hr = {'unit': u['unit'], 'harness': h['name'], 'kind': h['kind'], 'tier': h['tier'], 'fns': h['fns'], 'props': h['props'] or u['props'],
                  'status': 'undecided', 'checks': 0, 'failed': [], 'ignored': [], 'time_s': 0, 'path': hp}
            if r is None:
                hr['reason'] = 'no result (timeout / out of memory / crashed)'
            else:
                hr['time_s'] = r['time_s']
                hr['checks'] = r['total']
                ign = re.compile(h['ignore']) if h.get('ignore') else None
                for fc in r['failed']:
                    key = fc['desc'] + ' @ ' + fc['loc']
                    if IGNORE_DEFAULT.search(key) or (ign and ign.search(key)):
                        hr['ignored'].append(fc)
                    else:
                        hr['failed'].append(fc)
                if r.get('unsat_cover'):
                    hr['unsat_cover'] = r['unsat_cover']
                if r['status'] == 'SUCCESSFUL' or (r['status'] == 'FAILED' and not hr['failed'] and r['failed']):
                    hr['status'] = 'ok'
                elif r['status'] == 'FAILED' and hr['failed']:
                    hr['status'] = 'fail'
                else:
                    hr['reason'] = r.get('reason', r['status'])
                # float-SIMD pseudo overflow: not a defect of the code, but the paths behind it were pruned -> the harness decides nothing
                if hr['status'] == 'fail' and all(SIMD_PSEUDO.search(f['desc']) for f in hr['failed']):
                    hr['status'] = 'undecided'
                    hr['reason'] = 'float-SIMD pseudo overflow check prunes paths: stub the SSE intrinsics in this harness'
                # unwinding assertion failures mean the bound is too small: undecided, not a violation
                if hr['status'] == 'fail' and all('unwinding assertion' in f['desc'] for f in hr['failed']):
                    hr['status'] = 'undecided'
                    hr['reason'] = 'unwinding bound too small'
                if hr['status'] == 'ok' and r.get('cover_total') and r.get('cover_sat', 0) < r['cover_total']:
                    hr['status'] = 'undecided'
                    hr['reason'] = f"vacuity guard: {r['cover_total'] - r['cover_sat']} cover(s) unreachable"
            out['harnesses'].append(hr)
        # concrete playback for failing harnesses
        for hr in out['harnesses']:
            if hr['status'] == 'fail':
                hr['playback'] = concrete_playback(sc, hr['path'])
        if keep:
            out['scratch'] = sc.dir
    finally:
        out['wall_s'] = time.time() - t0
        if not keep:
            sc.close()
        else:
            fcntl.flock(sc.lockf, fcntl.LOCK_UN)
    return out


def shell_quote(s):
    return "'" + s.replace("'", "'\\''") + "'"


def harness_path(u, h):
    mod = u['module']
    m = re.sub(r'^src/', '', mod)
    m = re.sub(r'\.rs$', '', m)
    m = re.sub(r'/mod$', '', m)
    parts = [] if m in ('lib',) else m.split('/')
    return '::'.join(parts + ['verif_' + u['unit'], h['name']])


def parse_kani_output(text):
    res = {}
    cur = {}  # thread -> harness
    lines = text.split('\n')
    i = 0
    blocks = {}  # harness -> list of lines
    active = None
    for ln in lines:
        m = re.match(r'Thread (\d+): Checking harness (\S+?)\.\.\.', ln)
        if m:
            cur[m.group(1)] = m.group(2)
            active = None
            continue
        m = re.match(r'Thread (\d+):\s*$', ln)
        if m:
            active = cur.get(m.group(1))
            blocks[active] = []
            continue
        if ln.startswith('Manual Harness Summary') or ln.startswith('Complete - '):
            active = None
        m = re.match(r'Thread (\d+): (.*)', ln)
        if m and not ln.startswith('Thread %s: Checking' % m.group(1)):
            h = cur.get(m.group(1))
            blocks.setdefault(h, []).append(m.group(2))
            active = h
            continue
        if active is not None:
            blocks[active].append(ln)
    for h, bl in blocks.items():
        if h is None:
            continue
        t = '\n'.join(bl)
        r = {'status': 'UNKNOWN', 'total': 0, 'failed': [], 'time_s': 0.0}
        m = re.search(r'\*\* (\d+) of (\d+) failed', t)
        if m:
            r['total'] = int(m.group(2))
        m = re.search(r'\*\* (\d+) of (\d+) cover properties satisfied', t)
        if m:
            r['cover_sat'], r['cover_total'] = int(m.group(1)), int(m.group(2))
        for m in re.finditer(r'Failed Checks: (.*)\n File: "([^"]*)", line (\d+), in (.*)', t):
            r['failed'].append({'desc': m.group(1).strip(), 'loc': f'{m.group(2)}:{m.group(3)}', 'fn': m.group(4)})
        for m in re.finditer(r'Failed Checks: (.*)\n(?! File:)', t):
            r['failed'].append({'desc': m.group(1).strip(), 'loc': '?', 'fn': '?'})
        m = re.search(r'VERIFICATION:- (\w+)', t)
        if m:
            r['status'] = m.group(1)
        m = re.search(r'Verification Time: ([\d.]+)s', t)
        if m:
            r['time_s'] = float(m.group(1))
        m = re.search(r'(CBMC timed out|out of memory|CBMC failed|Killed|timed out)', t, re.I)
        if m and r['status'] not in ('SUCCESSFUL',):
            r['reason'] = m.group(1)
            if r['status'] == 'FAILED' and not r['failed']:
                r['status'] = 'UNKNOWN'
        res[h] = r
    return res


def concrete_playback(sc, hpath):
    cmd = ['cargo', 'kani', '--target-dir', sc.target, '-Z', 'function-contracts', '-Z', 'stubbing', '-Z', 'concrete-playback',
           '--concrete-playback=print', '--exact', '--harness', hpath]
    rc, text, se, to = run_group(['bash', '-c', 'ulimit -v 16000000; exec ' + ' '.join(shell_quote(c) for c in cmd)], 900, cwd=sc.dir, env=kani_env())
    if to:
        return {'test': None, 'log': 'playback generation timed out'}
    m = re.search(r'```\s*\n(.*?)```', text, re.S)
    test = m.group(1) if m else None
    checks = '\n'.join(re.findall(r'(?m)^Check \d+:.*\n\t - Status: FAILURE\n\t - Description:.*\n\t - Location:.*', text))
    return {'test': test, 'log': checks or text[-3000:]}


def native_replay(unit, test_text, repo=REPO, timeout=1800):
    """inject unit + the generated playback test into a scratch copy of the CURRENT repo and run it natively"""
    sc = Scratch('r')
    try:
        sc.prepare(repo)
        inject(sc.dir, [unit])
        path = os.path.join(sc.dir, unit['module'])
        src = open(path, encoding='utf-8').read()
        # put the test inside the harness module (last closing brace)
        idx = src.rstrip().rfind('}')
        src = src[:idx] + '\n' + test_text + '\n}\n'
        open(path, 'w', encoding='utf-8').write(src)
        m = re.search(r'fn (kani_concrete_playback_\w+)', test_text)
        name = m.group(1) if m else ''
        cmd = ['cargo', 'kani', 'playback', '--target-dir', sc.target + '-playback', '-Z', 'concrete-playback', '--', name]
        p = subprocess.run(cmd, cwd=sc.dir, env=kani_env(), capture_output=True, text=True, timeout=timeout)
        return p.returncode, (p.stdout + p.stderr)[-4000:]
    finally:
        sc.close()
